/-
C16 — every CSVW date / date-time format built from the documented fields is
translated to the strptime format that reads those fields back.

The theorems are about `Generated.Csvw.chain`, the replacement chain the
translator extracts from tdda/serial/csvw.py on every run: a change to the
chain in the source re-runs these proofs against the new chain.
-/
import TddaVerif.Model.Csvw
import TddaVerif.Generated.Csvw
import TddaVerif.Lemmas.CsvwDialect

namespace TddaVerif.Props.C16
open TddaVerif.Py TddaVerif.Csvw
open TddaVerif.Generated.Csvw (chain extChain reIso8601 csvwTypeToMtype mtypeToPandas)

/-- side conditions on the regenerated chain, decided by the kernel:
    no `old` is empty and no documented separator occurs in any `old` -/
def ChainOk (ch : Chain) : Bool :=
  ch.all (fun on => !on.1.isEmpty && allSeps.all (fun s => !on.1.contains s.char))

theorem chain_ok : ChainOk chain = true := by decide

/-- the chain distributes over any character that occurs in no `old` -/
theorem applyChain_append_sep (ch : Chain) (c : Char)
    (h : ∀ on ∈ ch, on.1 ≠ [] ∧ c ∉ on.1) (a b : List Char) :
    applyChain ch (a ++ c :: b) = applyChain ch a ++ c :: applyChain ch b := by
  induction ch generalizing a b with
  | nil => rfl
  | cons on rest ih =>
    have h1 := h on (List.mem_cons_self)
    have hr : ∀ on' ∈ rest, on'.1 ≠ [] ∧ c ∉ on'.1 := fun x hx => h x (List.mem_cons_of_mem _ hx)
    simp only [applyChain, List.foldl_cons]
    rw [replace_append_sep on.1 on.2 c h1.2 h1.1]
    exact ih hr _ _

theorem chain_sep (s : Sep) : ∀ on ∈ chain, on.1 ≠ [] ∧ s.char ∉ on.1 := by
  cases s <;> decide

/-- each documented field alone is translated to its directive -/
theorem token_translated (t : Tok) : applyChain chain t.text = t.directive := by
  cases t <;> decide

/-- **Main theorem.** For every pattern made of documented fields separated by
    documented separators — any number of fields, any order — the chain yields
    exactly the pattern with each field replaced by its strptime directive. -/
theorem separated_translated (t : Tok) (rest : List (Sep × Tok)) :
    applyChain chain (render t rest) = directives t rest := by
  induction rest generalizing t with
  | nil => exact token_translated t
  | cons st rest ih =>
    obtain ⟨s, t'⟩ := st
    simp only [render, directives]
    rw [applyChain_append_sep chain s.char (chain_sep s), token_translated, ih]

theorem render_no_percent (t : Tok) (rest : List (Sep × Tok)) :
    (render t rest).contains '%' = false := by
  induction rest generalizing t with
  | nil => cases t <;> decide
  | cons st rest ih =>
    obtain ⟨s, t'⟩ := st
    simp only [render, List.contains_eq_mem, List.mem_append, List.mem_cons, decide_eq_false_iff_not,
      not_or]
    have := ih t'
    simp only [List.contains_eq_mem, decide_eq_false_iff_not] at this
    refine ⟨?_, ?_, this⟩
    · cases t <;> decide
    · cases s <;> decide

theorem render_ne_nil (t : Tok) (rest : List (Sep × Tok)) : (render t rest).isEmpty = false := by
  cases rest with
  | nil => cases t <;> rfl
  | cons st rest => obtain ⟨s, t'⟩ := st; cases t <;> rfl

/-- The whole function (without the extensions flag) on a separated pattern:
    the directive pattern, collapsed to pandas' `ISO8601` exactly when the
    directive pattern is one of the ISO 8601 forms. -/
theorem translate_separated (t : Tok) (rest : List (Sep × Tok)) :
    translate chain extChain false (render t rest)
      = if isIso (directives t rest) then iso8601 else directives t rest := by
  unfold translate
  rw [render_no_percent, separated_translated, render_ne_nil]
  simp

/-- documented unseparated forms (testDateFormatsMapping and the CSVW primer) -/
theorem unseparated_forms :
    applyChain chain "yyyyMMdd".toList = "%Y%m%d".toList ∧
    applyChain chain "ddMMyyyy".toList = "%d%m%Y".toList ∧
    applyChain chain "MMddyyyy".toList = "%m%d%Y".toList ∧
    applyChain chain "yyMMdd".toList = "%y%m%d".toList ∧
    applyChain chain "HHmmss".toList = "%H%M%S".toList ∧
    applyChain chain "HHmm".toList = "%H%M".toList ∧
    applyChain chain "yyyyMMddTHHmmss".toList = "%Y%m%dT%H%M%S".toList := by
  refine ⟨?_, ?_, ?_, ?_, ?_, ?_, ?_⟩ <;> rfl

/-- the boundary of the claim: adjacent month and minute fields are NOT translated
    field by field (`MMmm` gives `%%Mm`), which is why the statement is about
    separated patterns and the listed unseparated forms -/
theorem adjacent_month_minute_unsound :
    applyChain chain ['M', 'M', 'm', 'm'] = ['%', '%', 'M', 'm'] := by decide

/-- the ISO collapse is sound: a separated pattern collapses to `ISO8601` only if
    its directive text is literally one of the ISO 8601 layouts -/
theorem iso_collapse_sound (t : Tok) (rest : List (Sep × Tok))
    (h : translate chain extChain false (render t rest) = iso8601) :
    directives t rest ∈ isoForms := by
  rw [translate_separated] at h
  by_cases hi : isIso (directives t rest) = true
  · simpa [isIso] using hi
  · simp only [hi] at h
    -- a directive pattern starts with '%', `ISO8601` does not
    exfalso
    cases rest with
    | nil => cases t <;> simp [directives, Tok.directive, iso8601] at h
    | cons st rest => obtain ⟨s, t'⟩ := st; cases t <;> simp [directives, Tok.directive, iso8601] at h

/-- the regex whose language `isIso` models is the one in the source -/
theorem iso_regex_source :
    reIso8601 = ['^', '%', 'Y', '-', '%', 'm', '-', '%', 'd', '(', '[', 'T', ' ', ']', '%', 'H', ':',
                 '%', 'M', ':', '%', 'S', '(', Char.ofNat 92, '.', '%', 'f', ')', '?', ')', '?', '$'] := by
  decide

/-- CSVW datatype -> metadata type -> pandas dtype, for the six documented types -/
def pandasOf (csvwType : List Char) : Option (List Char) :=
  (lookup csvwTypeToMtype csvwType).bind (lookup mtypeToPandas)

theorem dtype_table :
    pandasOf "boolean".toList = some "boolean".toList ∧
    pandasOf "integer".toList = some "Int64".toList ∧
    pandasOf "number".toList = some "float".toList ∧
    pandasOf "string".toList = some "string".toList ∧
    pandasOf "date".toList = some "date".toList ∧
    pandasOf "datetime".toList = some "datetime".toList := by
  refine ⟨?_, ?_, ?_, ?_, ?_, ?_⟩ <;> rfl

/-- every CSVW datatype in the table maps to some pandas dtype (no dangling metadata type) -/
theorem dtype_table_total : csvwTypeToMtype.all (fun kv => (lookup mtypeToPandas kv.2).isSome) = true := by
  decide

/-! ### header row (Model/CsvwDialect.lean) -/
open TddaVerif.CsvwDialect in
/-- the file is read without a header row exactly when the dialect says `header: false` (or 0) or `headerRowCount: 0` -/
theorem headerless_iff (h c : JV) : headerless h c = true ↔ (h.eqZero = true ∨ c.eqZero = true) :=
  CsvwDialect.Lemmas.headerless_iff h c

open TddaVerif.CsvwDialect in
/-- each of the three ways a dialect declares a header-less file works, whatever else it says about the other key -/
theorem declared_headerless (names : List (List Char)) :
    (∀ c, headerKw (.bool false) c names = some names) ∧ (∀ h, headerKw h (.num 0) names = some names) := by
  constructor
  · intro c; rw [CsvwDialect.Lemmas.headerKw_names]; rfl
  · intro h; rw [CsvwDialect.Lemmas.headerKw_names]; cases h <;> simp [JV.eqZero]

open TddaVerif.CsvwDialect in
/-- and a dialect that does not say so (no dialect, `header: true`, a positive count) keeps the header row -/
theorem default_has_header (names : List (List Char)) (n : Nat) :
    headerKw .absent .absent names = none ∧ headerKw (.bool true) .absent names = none ∧
    headerKw .absent (.num (n + 1)) names = none ∧ headerKw (.bool true) (.num (n + 1)) names = none := by
  refine ⟨rfl, rfl, ?_, ?_⟩ <;> rw [CsvwDialect.Lemmas.headerKw_names] <;> rfl

/-- **tie.** The expression process_dialect assigns to `header_rows`, the dialect keys its names were read from and the
    test to_pandas_read_csv_args makes on it are the ones the model translates (regenerated from csvw.py / pandasio.py
    on every run) -/
theorem tie_header_rule :
    TddaVerif.Generated.Csvw.headerRowsExpr = "0 if header == False else nvl(header_rows, 1)".toList ∧
    TddaVerif.Generated.Csvw.headerRowsKeys
      = [("header".toList, "header".toList), ("header_rows".toList, "headerRowCount".toList)] ∧
    TddaVerif.Generated.Csvw.headerRowsTests = ["md.header_rows == 0".toList] := by decide

/- non-vacuity: a concrete separated pattern and its translation -/
example : render .dd [(.slash, .MM), (.slash, .yyyy), (.space, .HH), (.colon, .mm)]
    = "dd/MM/yyyy HH:mm".toList := by rfl
example : directives .dd [(.slash, .MM), (.slash, .yyyy), (.space, .HH), (.colon, .mm)]
    = "%d/%m/%Y %H:%M".toList := by rfl
example : translate chain extChain false "yyyy-MM-ddTHH:mm:ss.SSS".toList = iso8601 := by rfl

end TddaVerif.Props.C16
