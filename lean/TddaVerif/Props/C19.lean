/-
C19 — tagged runs execute exactly the tagged tests; listing runs none.
Property theorems only; proofs in TddaVerif/Lemmas/RefTestCase.lean.
-/
import TddaVerif.Model.RefTestCase
import TddaVerif.Props.C19Spec
import TddaVerif.Lemmas.RefTestCase
import TddaVerif.Model.RefPytest
import TddaVerif.Lemmas.RefPytest

namespace TddaVerif.Props.C19
open TddaVerif.Py TddaVerif.RefTestCase

/-- **argv.** On every well-formed command line the scanner returns exactly its meaning: the tdda
    flags are recognised wherever they stand (in clusters with unittest letters, before or after
    class names and long options), each is removed, everything else keeps its place, and the kinds
    after a write option are registered. -/
theorem parseArgv_spec (c : Cmd) (h : c.WF = true) : parseArgv c.render = .ok c.meaning :=
  Lemmas.parseArgv_spec c h

/-- a write option with no kind after it is rejected -/
theorem write_needs_kinds (prog : Arg) (toks : List Tok) (s : Nat)
    (h : (Cmd.mk prog toks none).WF = true) :
    parseArgv (prog :: toks.map Tok.render ++ [writeSpelling s]) = .error .writeNeedsParams :=
  Lemmas.write_needs_kinds prog toks s h

/-- **selection under the tagged option**: the tests selected from class `i` are exactly the visible
    test methods that carry the tag themselves or through their class -/
theorem tagged_selects_exactly (cs : List TestClass) (hac : Acyclic cs)
    (hd : ∀ c ∈ cs, (c.own.map (·.1)).Nodup) (i : Nat) (hi : i < cs.length)
    (m : Arg) : m ∈ testNames cs i true ↔ CarriesTag cs i m :=
  Lemmas.tagged_selects_exactly cs hac hd i hi m

/-- without the option every visible test is selected -/
theorem untagged_selects_all (cs : List TestClass) (hac : Acyclic cs) (i : Nat) (hi : i < cs.length)
    (m : Arg) : m ∈ testNames cs i false ↔ ∃ tg, Visible cs i m tg :=
  Lemmas.untagged_selects_all cs hac i hi m

/-- each selected test is selected once (method names within a class body are distinct) -/
theorem selected_once (cs : List TestClass) (hac : Acyclic cs)
    (hd : ∀ c ∈ cs, (c.own.map (·.1)).Nodup) (i : Nat) (hi : i < cs.length) (tagged : Bool) :
    (testNames cs i tagged).Nodup :=
  Lemmas.selected_once cs hac hd i hi tagged

/-- with the list-tagged option no test is selected, and exactly the classes that contain a test
    carrying the tag are listed -/
theorem check_runs_none (cs : List TestClass) (tagged : Bool) : selectTests cs tagged true = [] := by
  simp [selectTests]

theorem check_lists_exactly (cs : List TestClass) (hac : Acyclic cs)
    (hd : ∀ c ∈ cs, (c.own.map (·.1)).Nodup) (n : Arg) :
    n ∈ listedClasses cs true ↔
      ∃ i c, cs[i]? = some c ∧ c.name = n ∧ ∃ m, CarriesTag cs i m :=
  Lemmas.check_lists_exactly cs hac hd n

/-- the run list is the per-class selections, in class order -/
theorem selectTests_mem (cs : List TestClass) (tagged : Bool) (n m : Arg) :
    (n, m) ∈ selectTests cs tagged false ↔
      ∃ i c, cs[i]? = some c ∧ c.name = n ∧ m ∈ testNames cs i tagged :=
  Lemmas.selectTests_mem cs tagged n m

/- non-vacuity -/
example : (Cmd.mk "p".toList [.cluster ['v', '1'], .other "TestA".toList, .cluster ['0'], .tagged]
            (some (2, ["a,b".toList]))).WF = true := by decide
example : parseArgv ["p".toList, "-v1".toList, "TestA".toList, "-0".toList, "--tagged".toList,
                     "--write".toList, "a,b".toList]
    = .ok { argv := ["p".toList, "-v".toList, "TestA".toList], tagged := true, check := true, quiet := false,
            regen := [some "a".toList, some "b".toList] } := by rfl

/-! ### the pytest collection filter (referencepytest.tagged: --tagged / --istagged)

An item is what the filter reads of a collected test: its name, the class of a method (with the class's tag as Python
resolves it through inheritance) and the function's own tag. -/
open TddaVerif.RefPytest in
/-- without either option the collection is left as it is -/
theorem pytest_no_option_untouched (items : List Item) : filterItems false false items = (items, []) :=
  PytestLemmas.no_option_untouched items

open TddaVerif.RefPytest in
/-- under the tagged option exactly the tagged items stay, in their order, and nothing is printed -/
theorem pytest_tagged_selects_exactly (items : List Item) :
    filterItems true false items = (items.filter (·.tagged), []) :=
  PytestLemmas.tagged_selects_exactly items

open TddaVerif.RefPytest in
/-- an item stays iff it is a collected item that carries the tag itself or through its class -/
theorem pytest_tagged_mem_iff (items : List Item) (i : Item) :
    i ∈ (filterItems true false items).1 ↔ i ∈ items ∧ (i.fnTagged = true ∨ (i.cls.isSome = true ∧ i.clsTagged = true)) :=
  PytestLemmas.tagged_mem_iff items i

open TddaVerif.RefPytest in
/-- each once -/
theorem pytest_tagged_nodup (items : List Item) (h : items.Nodup) : (filterItems true false items).1.Nodup :=
  PytestLemmas.tagged_nodup items h

open TddaVerif.RefPytest in
/-- the list-tagged option leaves no test to run, with or without the tagged option -/
theorem pytest_check_runs_none (run : Bool) (items : List Item) : (filterItems run true items).1 = [] :=
  PytestLemmas.check_runs_none run items

open TddaVerif.RefPytest in
/-- the list-tagged option names exactly the classes that contain a tagged test, and the tagged module-level functions -/
theorem pytest_check_lists_exactly (run : Bool) (items : List Item) (n : Name) :
    n ∈ (filterItems run true items).2 ↔
      (∃ i ∈ items, i.tagged = true ∧ i.cls = some n) ∨ (∃ i ∈ items, i.tagged = true ∧ i.cls = none ∧ i.name = n) :=
  PytestLemmas.check_lists_exactly run items n

open TddaVerif.RefPytest in
/-- a class is named once however many tagged tests it has -/
theorem pytest_check_lists_classes_once (run : Bool) (items : List Item) (hm : ∀ i ∈ items, i.cls.isSome = true) :
    (filterItems run true items).2.Nodup :=
  PytestLemmas.check_lists_classes_once run items hm

end TddaVerif.Props.C19
