/-
C15 — failed text assertions leave faithful artefacts; passing ones leave none.

Property theorems only; proofs in TddaVerif/Lemmas/Artefacts.lean.
-/
import TddaVerif.Model.CheckStrings
import TddaVerif.Props.C04Spec
import TddaVerif.Lemmas.Artefacts
import TddaVerif.Lemmas.TmpDir

namespace TddaVerif.Props.C15
open TddaVerif.Py TddaVerif.CheckStrings TddaVerif.Props.C04

/-- a passing comparison plans no file at all -/
theorem pass_writes_nothing (o : Opts) (pat : PatFn) (a e : List Line) (gnl : Bool) (raw : Line)
    (h : (checkStrings o pat a e).failures = 0) :
    plan o (checkStrings o pat a e) gnl raw = { rawActual := none, diffActual := none, diffExpected := none } :=
  Lemmas.pass_writes_nothing o pat a e gnl raw h

/-- the file written as the raw actual when a string comparison fails holds the actual content exactly as it was
    given (`raw`), whatever was stripped, removed, ignored or preprocessed for the comparison -/
theorem raw_actual_content (o : Opts) (pat : PatFn) (a e : List Line) (gnl : Bool) (raw : Line)
    (hf : (checkStrings o pat a e).failures = 1) (hc : o.createTemporaries = true)
    (hs : o.actualPath = false) :
    (plan o (checkStrings o pat a e) gnl raw).rawActual = some raw :=
  Lemmas.raw_actual_content o pat a e gnl raw hf hc hs

/-- a file comparison never writes a raw actual (the actual file itself is named) -/
theorem file_actual_not_rewritten (o : Opts) (pat : PatFn) (a e : List Line) (gnl : Bool) (raw : Line)
    (hs : o.actualPath = true) : (plan o (checkStrings o pat a e) gnl raw).rawActual = none :=
  Lemmas.file_actual_not_rewritten o pat a e gnl raw hs

/-- the reported first differing byte offset is exact: everything before it agrees, and it is
    either the end of the shorter input or a position where the bytes differ -/
theorem binary_offset_exact (a e : List Nat) :
    firstDiff a e ≤ min a.length e.length ∧
    (∀ i, i < firstDiff a e → a[i]? = e[i]?) ∧
    (firstDiff a e = min a.length e.length ∨ a[firstDiff a e]? ≠ e[firstDiff a e]?) :=
  Lemmas.binary_offset_exact a e

/-- the marker for two different lines is COMMON-PREFIX ( LEFT | RIGHT ) COMMON-SUFFIX with
    maximal common prefix and, after it, maximal common suffix -/
theorem diffMarker_shape (l r : Line) (h : l ≠ r) :
    ∃ pre ml mr suf, l = pre ++ ml ++ suf ∧ r = pre ++ mr ++ suf ∧
      diffMarker l r = pre ++ ['('] ++ ml ++ ['|'] ++ mr ++ [')'] ++ suf ∧
      (ml.head? ≠ mr.head? ∨ ml = [] ∨ mr = []) ∧
      (ml.getLast? ≠ mr.getLast? ∨ ml = [] ∨ mr = []) :=
  Lemmas.diffMarker_shape l r h

theorem diffMarker_self (l : Line) : diffMarker l l = l := Lemmas.diffMarker_self l

/-- **post-processed pair.** When both sides have the same number of lines after removal and a
    reconstruction is produced, the two reconstructed texts have the same number of lines and
    differ exactly on the unexcused pairs, in order (each shown after the requested stripping). -/
theorem postprocessed_differ_exactly (o : Opts) (pat : PatFn) (a e : List Line)
    (ra re : List Line)
    (hl : (kept o a).length = (kept o e).length)
    (hr : (checkStrings o pat a e).reconstruction = some (ra, re)) :
    ra.length = re.length ∧
    (ra.zip re).filter (fun p => p.1 != p.2)
      = (badPairs o pat a e).map (fun p => (normalize o p.1, normalize o p.2)) :=
  Lemmas.postprocessed_differ_exactly o pat a e ra re hl hr

/-! ### where the files go (Model/TmpDir.lean) -/
open TddaVerif.TmpDir in
/-- a directory configured with `set_defaults(tmp_dir=d)` is the one written to, whatever TDDA_FAIL_DIR and the system say -/
theorem configured_dir_wins (d : Path) (env : Option Path) (sys : Path) (h : d ≠ []) :
    tmpDir (some (some d)) env sys = d := TmpDir.Lemmas.explicit_dir_wins d env sys h

open TddaVerif.TmpDir in
/-- with nothing configured, TDDA_FAIL_DIR is used -/
theorem env_dir_when_unset (d sys : Path) (h : d ≠ []) : tmpDir none (some d) sys = d :=
  TmpDir.Lemmas.env_dir_when_unset d sys h

open TddaVerif.TmpDir in
/-- and otherwise (nothing configured and no variable, or `None` / an empty string configured) the system's directory -/
theorem system_dir_otherwise (sys : Path) :
    tmpDir none none sys = sys ∧ tmpDir (some none) none sys = sys ∧ tmpDir (some (some [])) none sys = sys
    ∧ ∀ env, tmpDir (some none) env sys = sys := TmpDir.Lemmas.system_dir_otherwise sys

open TddaVerif.TmpDir in
/-- **nothing outside the temporary directory.** Every path add_failures writes, for whatever actual / reference path
    (absolute, with directories, ending in a separator, holding a name that looks like a temporary one), is a direct
    child of the temporary directory -/
theorem written_inside (d : Path) (c : Call) : ∀ p ∈ written d c, ChildOf d p := TmpDir.Lemmas.written_inside d c

open TddaVerif.TmpDir in
/-- the files of one failure do not overwrite each other -/
theorem written_nodup (d : Path) (c : Call) : (written d c).Nodup := TmpDir.Lemmas.written_nodup d c

open TddaVerif.TmpDir in
/-- `create_temporaries=False` writes nothing -/
theorem no_temporaries_writes_nothing (d : Path) (c : Call) (h : c.createTemporaries = false) : written d c = [] :=
  TmpDir.Lemmas.no_temporaries_writes_nothing d c h

open TddaVerif.TmpDir in
example : written "/t/tmp".toList ⟨none, some "ref/dir/STDOUT".toList, true, false, true, true⟩
    = ["/t/tmp/actual-raw-STDOUT".toList, "/t/tmp/actual-STDOUT".toList, "/t/tmp/expected-STDOUT".toList] := by decide

/- non-vacuity -/
example : diffMarker "took 12 ms".toList "took 345 ms".toList = "took (12|345) ms".toList := by decide
example : firstDiff [1, 2, 3] [1, 2, 4, 5] = 2 := by decide
example : (checkStrings { removeLines := ["user".toList], ignoreSubstrings := ["id".toList] } (fun _ _ => none)
      ["k".toList, "id 1".toList, "z".toList] ["user q".toList, "k".toList, "id 2".toList, "w".toList]).reconstruction
    = some (["*** (|user q)".toList, "k".toList, "*** id (1|2)".toList, "z".toList],
            ["*** (|user q)".toList, "k".toList, "*** id (1|2)".toList, "w".toList]) := by decide

end TddaVerif.Props.C15
