/-
C13 — every expression rexpy returns matches at least one example; never more expressions than
distinct examples; none for an empty input; pruning only deletes; expressions are anchored.
(Validity of the rendered text as a Python regular expression is decided by re.compile in the
oracle; tag invariance holds by construction: tagging is not part of the pattern AST, only of its
rendering.)  Proofs in Lemmas/RexpySound.lean and Lemmas/RexpyInvariance.lean.
-/
import TddaVerif.Model.Rexpy
import TddaVerif.Model.RexpyRender
import TddaVerif.Props.C03Spec
import TddaVerif.Lemmas.RexpySound
import TddaVerif.Lemmas.RexpyInvariance
import TddaVerif.Model.RexpySampled
import TddaVerif.Lemmas.RexpySampled

namespace TddaVerif.Props.C13
open TddaVerif.Py TddaVerif.Rexpy TddaVerif.Props.C03

/-- every pattern of a batch extraction matches at least one of the (cleaned) examples -/
theorem each_pattern_has_witness (T : CharTable) (hT : Consistent T) (o : Opts)
    (hsz : 1 ≤ o.sizes.maxStringsInGroup) (cl : Cleaned) (ps : List Pattern) (E : List Char)
    (h : batchExtract T o cl = some (ps, E)) :
    ∀ p ∈ ps, ∃ s ∈ cl.strings, Matches T E (wrapWs (decide (cl.nStripped > 0)) p) s :=
  C03.Lemmas.batch_pattern_has_witness T hT o hsz cl ps E h

/-- there are never more patterns than distinct examples -/
theorem count_le_distinct (T : CharTable) (o : Opts) (cl : Cleaned) (ps : List Pattern) (E : List Char)
    (h : batchExtract T o cl = some (ps, E)) : ps.length ≤ cl.strings.eraseDups.length :=
  C03.Lemmas.batch_count_le T o cl ps E h

/-- an input with no example left after cleaning gives no expression -/
theorem none_for_empty (T : CharTable) (o : Opts) (items : List (Option Line × Nat))
    (h : (clean o.stripOpt o.removeEmpties items).strings = []) : extract T o items = some ([], [], false) :=
  C03.Lemmas.extract_empty T o items h

/-- max_patterns / min_strings_per_pattern only delete patterns -/
theorem pruning_subset (T : CharTable) (o : Opts) (items : List (Option Line × Nat))
    (ps : List Pattern) (E : List Char) (w : Bool) (h : extract T o items = some (ps, E, w))
    (hne : (clean o.stripOpt o.removeEmpties items).strings ≠ []) :
    ∃ qs, batchExtract T o (clean o.stripOpt o.removeEmpties items) = some (qs, E) ∧ ∀ p ∈ ps, p ∈ qs :=
  C03.Lemmas.extract_subset_batch T o items ps E w h hne

/-- under sampling too, every returned pattern matches one of the examples (it was extracted from working examples,
    which are examples) -/
theorem sampled_pattern_has_witness (T : CharTable) (hT : Consistent T) (o : Opts)
    (hsz : 1 ≤ o.sizes.maxStringsInGroup) (cfg : SampleCfg) (pick : Pick) (hp : C03.SampledLemmas.PickOK pick)
    (items : List (Option Line × Nat)) (ps : List Pattern) (E : List Char) (w : Bool)
    (h : extractSampled T o cfg pick items = some (ps, E, w)) :
    ∀ p ∈ ps, ∃ s ∈ (clean o.stripOpt o.removeEmpties items).strings, Matches T E (wrapWs w p) s :=
  C03.SampledLemmas.extractSampled_witness T hT o hsz cfg pick hp items ps E w h

/-- … for every Size setting (the code reads the cap as `max(cap, 1)`: see C03 `extract_sound_every_size`) -/
theorem each_pattern_has_witness_every_size (T : CharTable) (hT : Consistent T) (o : Opts) (cl : Cleaned)
    (ps : List Pattern) (E : List Char) (h : batchExtract T o.norm cl = some (ps, E)) :
    ∀ p ∈ ps, ∃ s ∈ cl.strings, Matches T E (wrapWs (decide (cl.nStripped > 0)) p) s :=
  each_pattern_has_witness T hT o.norm (Nat.le_max_right _ _) cl ps E h

theorem sampled_pattern_has_witness_every_size (T : CharTable) (hT : Consistent T) (o : Opts)
    (cfg : SampleCfg) (pick : Pick) (hp : C03.SampledLemmas.PickOK pick)
    (items : List (Option Line × Nat)) (ps : List Pattern) (E : List Char) (w : Bool)
    (h : extractSampled T o.norm cfg pick items = some (ps, E, w)) :
    ∀ p ∈ ps, ∃ s ∈ (clean o.stripOpt o.removeEmpties items).strings, Matches T E (wrapWs w p) s :=
  sampled_pattern_has_witness T hT o.norm (Nat.le_max_right _ _) cfg pick hp items ps E w h

/-- every rendered expression starts with `^` and ends with `$` -/
theorem anchored (E : List Char) (dialect : Nat) (tagged wsWrap : Bool) (p : Pattern) :
    (patternText E dialect tagged wsWrap p).head? = some '^' ∧
    (patternText E dialect tagged wsWrap p).getLast? = some '$' :=
  C14.Lemmas.patternText_anchored E dialect tagged wsWrap p

end TddaVerif.Props.C13
