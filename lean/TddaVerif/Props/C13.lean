import TddaVerif.Py.Text
namespace TddaVerif.Props.C13
end TddaVerif.Props.C13
