/-
C01 — discovered constraints are satisfied by the data they came from.
Property theorems only; proofs in TddaVerif/Lemmas/Closure.lean.
-/
import TddaVerif.Model.Constraints
import TddaVerif.Props.C02Spec
import TddaVerif.Lemmas.Closure

namespace TddaVerif.Props.C01
open TddaVerif.Constraints TddaVerif.Props.C02

/-- what C03 proves about rexpy, as a hypothesis on the parameter `rexOf`: every non-null string of
    the column is matched by one of the expressions returned for the column's distinct values
    (definition in Lemmas/Closure.lean) -/
abbrev RexSound := @RexSound'

/-- **Closure.** Every constraint discovered from a well-typed column — with or without regular
    expressions — is reported satisfied when that column is verified, for every ε ≥ 0, strict or
    sloppy typing, in verification or detection mode. -/
theorem closure (cfg : Cfg) (heps : 0 ≤ cfg.epsilon) (incRex : Bool) (rexOf : List Val → List Nat)
    (c : Column) (hwf : c.WF = true) (hrex : RexSound cfg rexOf c) (ks : List Constraint)
    (h : discoverField incRex rexOf c c.cells.length = .ok (some ks)) (detect : Bool) :
    ∀ k ∈ ks, verifyOn cfg c detect k = true :=
  Lemmas.closure cfg heps incRex rexOf c hwf hrex ks h detect

/-- discovery never fails on a well-typed column (zero rows, all-null, … included) -/
theorem discover_total (incRex : Bool) (rexOf : List Val → List Nat) (c : Column) (hwf : c.WF = true) :
    ∃ ks, discoverField incRex rexOf c c.cells.length = .ok (some ks) :=
  Lemmas.discover_total incRex rexOf c hwf

/-- the discovery of a whole frame: one constraint list per recognised column -/
abbrev discoverFrame := @discoverFrame'

/-- **Closure for a frame**: verifying a frame of well-typed columns with distinct names against
    its own discovered constraints reports no failure, every constraint passes, and no record would
    be flagged by detection. -/
theorem closure_frame (cfg : Cfg) (heps : 0 ≤ cfg.epsilon) (incRex : Bool) (rexOf : List Val → List Nat)
    (frame : List Column) (hwf : ∀ c ∈ frame, c.WF = true) (hnames : (frame.map (·.name)).Nodup)
    (hrex : ∀ c ∈ frame, RexSound cfg rexOf c) (detect : Bool) :
    let cs := discoverFrame incRex rexOf frame
    (verifyAll cfg frame detect cs).failures = 0 ∧
    (verifyAll cfg frame detect cs).passes = ((cs.map (·.2.length)).sum) ∧
    ∀ c ∈ frame, ∀ ks, (c.name, ks) ∈ cs → ks.filter (fun k => !verifyOn cfg c true k) = [] :=
  Lemmas.closure_frame cfg heps incRex rexOf frame hwf hnames hrex detect

/- non-vacuity: a column, its discovered constraints, all verified -/
example :
    (match discoverField false (fun _ => []) { name := ['n'], ftype := .int, cells := [some (.i (-3)), none, some (.i 4)] } 3 with
     | .ok (some ks) => ks.all (verifyOn { epsilon := 0, strict := true, rx := fun _ _ => false }
                                  { name := ['n'], ftype := .int, cells := [some (.i (-3)), none, some (.i 4)] } false)
     | _ => false) = true := by decide +kernel

end TddaVerif.Props.C01
