/-
C06 — detection flags exactly the violating records and agrees with verification.
Property theorems only; proofs in TddaVerif/Lemmas/Detect.lean.
-/
import TddaVerif.Model.Constraints
import TddaVerif.Props.C02Spec
import TddaVerif.Lemmas.Detect

import TddaVerif.Lemmas.DetectOut
namespace TddaVerif.Props.C06
open TddaVerif.Constraints TddaVerif.Props.C02

abbrev single := @single'
abbrev ftCoarse := @ftCoarse'
abbrev RecordWise := @RecordWise'

/-- constraint-level verdicts under detection are those of plain verification -/
theorem detect_verdicts_eq_verify (cfg : Cfg) (heps : 0 ≤ cfg.epsilon) (c : Column) (hwf : c.WF = true)
    (k : Constraint) : verifyOn cfg c true k = verifyOn cfg c false k :=
  Lemmas.detect_verdicts_eq_verify cfg heps c hwf k

/-- every flag column has one entry per record -/
theorem flags_length (cfg : Cfg) (c : Column) (k : Constraint) (fl : List (Option Bool))
    (h : detectFlags cfg c k = some fl) : fl.length = c.cells.length :=
  Lemmas.flags_length cfg c k fl h

/-- **record-wise kinds**: a null record is flagged null; a non-null record is flagged `true`
    exactly when it meets the documented meaning of the constraint on its own -/
theorem flag_false_iff_violates (cfg : Cfg) (heps : 0 ≤ cfg.epsilon) (c : Column) (hwf : c.WF = true)
    (k : Constraint) (hk : RecordWise c k) (fl : List (Option Bool))
    (h : detectFlags cfg c k = some fl) (i : Nat) (hi : i < c.cells.length) :
    (c.cells[i]? = some none → fl[i]? = some none) ∧
    (∀ v, c.cells[i]? = some (some v) → ∃ b, fl[i]? = some (some b) ∧ (b = true ↔ Sat cfg (single c v) k)) :=
  Lemmas.flag_false_iff_violates cfg heps c hwf k hk fl h i hi

/-- a type failure (and a bound of the wrong type for the field) flags every record -/
theorem type_failure_flags_all (cfg : Cfg) (c : Column) (ts : Option (List FType)) :
    detectFlags cfg c (.type ts) = some (c.cells.map (fun _ => some false)) :=
  Lemmas.type_failure_flags_all cfg c ts

theorem wrong_typed_bound_flags_all (cfg : Cfg) (c : Column) (b : Val) (p : Precision)
    (h : ftCoarse c.ftype ≠ some b.coarse) :
    detectFlags cfg c (.min (some b) p) = some (c.cells.map (fun _ => some false)) ∧
    detectFlags cfg c (.max (some b) p) = some (c.cells.map (fun _ => some false)) :=
  Lemmas.wrong_typed_bound_flags_all cfg c b p h

/-- a null-count failure flags exactly the null records -/
theorem maxNulls_flags_nulls (cfg : Cfg) (c : Column) (n : Int) :
    detectFlags cfg c (.maxNulls (some n)) = some (c.cells.map (fun x => some x.isSome)) :=
  Lemmas.maxNulls_flags_nulls cfg c n

/-- a duplicates failure flags every member of a duplicated group, and no null record -/
theorem noDuplicates_flags (cfg : Cfg) (c : Column) (fl : List (Option Bool))
    (h : detectFlags cfg c (.noDuplicates (some true)) = some fl) (i : Nat) (hi : i < c.cells.length) :
    (c.cells[i]? = some none → fl[i]? = some (some true)) ∧
    (∀ v, c.cells[i]? = some (some v) →
        fl[i]? = some (some (decide ((c.nonNull.filter (fun w => w.eqv v)).length ≤ 1)))) :=
  Lemmas.noDuplicates_flags cfg c fl h i hi

/-- each record's failure count is its number of false flags -/
theorem nFailures_exact (cols : List (List (Option Bool))) (n : Nat) (i : Nat) (hi : i < n) :
    (nFailures cols n)[i]? = some ((cols.filter (fun col => col.getD i none == some false)).length) :=
  Lemmas.nFailures_exact cols n i hi

/-- the passing and failing record counts partition the rows, and the failing ones are exactly the
    records with at least one false flag -/
theorem counts_partition (cols : List (List (Option Bool))) (n : Nat) :
    nPassing (nFailures cols n) + nFailing (nFailures cols n) = n ∧
    nFailing (nFailures cols n) =
      ((List.range n).filter (fun i => cols.any (fun col => col.getD i none == some false))).length :=
  Lemmas.counts_partition cols n

/- non-vacuity -/
example : detectFlags { epsilon := 0, strict := false, rx := fun _ _ => false }
    { name := ['a'], ftype := .int, cells := [some (.i 3), none, some (.i 9)] } (.max (some (.i 5)) .closed)
    = some [some true, none, some false] := by decide +kernel

/-! ### the file of detected records (Model/DetectOut.lean) -/
open TddaVerif.DetectOut in
/-- every row written carries, as its row number, the position (from 1) of its record in the input, and that record's count -/
theorem written_rows_are_positions (nf : List Nat) (wa : Bool) (r v : Nat) (h : (r, v) ∈ written nf wa) :
    1 ≤ r ∧ r ≤ nf.length ∧ nf[r - 1]? = some v := DetectOut.Lemmas.written_rows_are_positions nf wa r v h

open TddaVerif.DetectOut in
/-- without write_all only failing records are written -/
theorem written_failing (nf : List Nat) (r v : Nat) (h : (r, v) ∈ written nf false) : v > 0 :=
  DetectOut.Lemmas.written_failing nf r v h

open TddaVerif.DetectOut in
/-- and every failing record (every record with write_all) is written, under its own position -/
theorem failing_written (nf : List Nat) (wa : Bool) (i v : Nat) (hv : nf[i]? = some v) (h : wa = true ∨ v > 0) :
    (i + 1, v) ∈ written nf wa := DetectOut.Lemmas.failing_written nf wa i v hv h

open TddaVerif.DetectOut in
/-- in the order of the input, no record twice -/
theorem written_sorted (nf : List Nat) (wa : Bool) : (written nf wa).Pairwise (fun a b => a.1 < b.1) :=
  DetectOut.Lemmas.written_sorted nf wa

open TddaVerif.DetectOut in
example : written [0, 2, 0, 1] false = [(2, 2), (4, 1)] := by decide

end TddaVerif.Props.C06
