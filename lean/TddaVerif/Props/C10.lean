/-
C10 — references are rewritten only on request, and a regenerated reference passes.
Property theorems only; proofs in TddaVerif/Lemmas/Regen.lean.
-/
import TddaVerif.Model.Regen
import TddaVerif.Props.C19Spec
import TddaVerif.Lemmas.Regen
import TddaVerif.Model.RefPytest

namespace TddaVerif.Props.C10
open TddaVerif.Py TddaVerif.RefTestCase TddaVerif.CheckStrings TddaVerif.Regen TddaVerif.RefPytest

/-- **The regeneration table over histories.** After any sequence of `set_regeneration` calls the
    decision for a kind is the value of the last call for that kind; if there was none, of the last
    call for "all kinds" (`none`); if none either, no regeneration. -/
theorem shouldRegenerate_history (ops : List (Option Arg × Bool)) (kind : Option Arg) :
    shouldRegenerate (applySets [] ops) kind =
      match (ops.reverse.find? (fun op => op.1 == kind)) with
      | some op => op.2
      | none => match (ops.reverse.find? (fun op => op.1 == none)) with
                | some op => op.2
                | none => false :=
  Lemmas.shouldRegenerate_history ops kind

/-- `--write table` cannot regenerate `graph`: with only named kinds switched on, a kind is
    regenerated iff it was named -/
theorem write_only_named (kinds : List Arg) (k : Arg) :
    shouldRegenerate (applySets [] (kinds.map (fun x => (some x, true)))) (some k) = kinds.contains k :=
  Lemmas.write_only_named kinds k

/-- the table built from a command line: a kind is regenerated iff it was named after a write option,
    or all kinds were requested (-W / --write-all / --W) -/
theorem regen_from_cmdline (c : Props.C19.Cmd) (k : Arg) :
    shouldRegenerate (applySets [] (c.meaning.regen.map (fun x => (x, true)))) (some k)
      = (c.meaning.regen.contains (some k) || c.meaning.regen.contains none) :=
  Lemmas.regen_from_cmdline c k

/-- **Normal mode is read-only**: if the kind is not selected for regeneration, the reference is
    afterwards what it was before, whatever the outcome. -/
theorem normal_mode_readonly_string (t : RegenTable) (kind : Option Arg) (o : Opts) (pat : PatFn)
    (actual : Line) (ref : Option Line) (h : shouldRegenerate t kind = false) :
    (assertString t kind o pat actual ref).ref = ref ∧
    (assertString t kind o pat actual ref).outcome ≠ .regenerated :=
  Lemmas.normal_mode_readonly_string t kind o pat actual ref h

theorem normal_mode_readonly_textfile (t : RegenTable) (kind : Option Arg) (o : Opts) (pat : PatFn)
    (actual : Line) (ref : Option Line) (h : shouldRegenerate t kind = false) :
    (assertTextFile t kind o pat actual ref).ref = ref ∧
    (assertTextFile t kind o pat actual ref).outcome ≠ .regenerated :=
  Lemmas.normal_mode_readonly_textfile t kind o pat actual ref h

theorem normal_mode_readonly_binary (t : RegenTable) (kind : Option Arg)
    (actual : List Nat) (ref : Option (List Nat)) (h : shouldRegenerate t kind = false) :
    (assertBinaryFile t kind actual ref).ref = ref ∧
    (assertBinaryFile t kind actual ref).outcome ≠ .regenerated :=
  Lemmas.normal_mode_readonly_binary t kind actual ref h

/-- reading text back through universal newlines does not change its lines -/
theorem splitlines_universal (s : Line) : splitlines (universal s) = splitlines s :=
  Lemmas.splitlines_universal s

theorem universal_idem (s : Line) : universal (universal s) = universal s :=
  Lemmas.universal_idem s

/-- **Regenerate, then check.** After an assertion regenerated its reference, the same assertion on
    the same actual in normal mode passes — for every content (CR/LF, missing final newline, unicode),
    every option record and every pattern relation. -/
theorem regenerate_then_pass_string (t t' : RegenTable) (kind : Option Arg) (o : Opts) (pat : PatFn)
    (actual : Line) (ref : Option Line)
    (h : shouldRegenerate t kind = true) (h' : shouldRegenerate t' kind = false) :
    (assertString t' kind o pat actual (assertString t kind o pat actual ref).ref).outcome = .passed :=
  Lemmas.regenerate_then_pass_string t t' kind o pat actual ref h h'

theorem regenerate_then_pass_textfile (t t' : RegenTable) (kind : Option Arg) (o : Opts) (pat : PatFn)
    (actual : Line) (ref : Option Line)
    (h : shouldRegenerate t kind = true) (h' : shouldRegenerate t' kind = false) :
    (assertTextFile t' kind o pat actual (assertTextFile t kind o pat actual ref).ref).outcome = .passed :=
  Lemmas.regenerate_then_pass_textfile t t' kind o pat actual ref h h'

theorem regenerate_then_pass_binary (t t' : RegenTable) (kind : Option Arg)
    (actual : List Nat) (ref : Option (List Nat))
    (h : shouldRegenerate t kind = true) (h' : shouldRegenerate t' kind = false) :
    (assertBinaryFile t' kind actual (assertBinaryFile t kind actual ref).ref).outcome = .passed :=
  Lemmas.regenerate_then_pass_binary t t' kind actual ref h h'

/- non-vacuity -/
example : shouldRegenerate (applySets [] [(none, true), (some "graph".toList, false)]) (some "table".toList) = true := by decide
example : shouldRegenerate (applySets [] [(none, true), (some "graph".toList, false)]) (some "graph".toList) = false := by decide
example : universal "a\r\nb\rc\n".toList = "a\nb\nc\n".toList := by decide

/-! ### the pytest spellings (referencepytest.ref: --write-all, --write KIND ..., kinds separate or comma-separated) -/


theorem refTable_eq (writeAll : Bool) (write : Option (List Arg)) :
    refTable writeAll write = applySets [] ((refOps writeAll write).map (fun k => (k, true))) := by
  simp [refTable, applySets, List.foldl_map]

/-- ref(request): a kind is regenerated iff write-all was given or the kind is one of the comma-separated parts of a
    write parameter (with write-all the named kinds add nothing) -/
theorem ref_table_spec (writeAll : Bool) (write : Option (List Arg)) (k : Arg) :
    shouldRegenerate (refTable writeAll write) (some k) =
      (writeAll || (match write with
                    | none => false
                    | some ps => (ps.flatMap (fun p => splitComma p [])).contains k)) := by
  rw [refTable_eq, Lemmas.regen_all_true]
  cases writeAll with
  | true => simp [refOps]
  | false =>
    cases write with
    | none => simp [refOps]
    | some ps =>
      simp only [refOps, Bool.false_eq_true, if_false, Bool.false_or]
      rw [Bool.eq_iff_iff]; simp

/-- ... and the unnamed kind (assertions without a kind) is regenerated only by write-all -/
theorem ref_table_unnamed (writeAll : Bool) (write : Option (List Arg)) :
    shouldRegenerate (refTable writeAll write) none = writeAll := by
  rw [refTable_eq, Lemmas.regen_all_true]
  cases writeAll with
  | true => simp [refOps]
  | false =>
    cases write with
    | none => simp [refOps]
    | some ps => simp [refOps]


/- non-vacuity -/
example : shouldRegenerate (refTable false (some ["table,graph".toList, "csv".toList])) (some "graph".toList) = true := by decide
example : shouldRegenerate (refTable false (some ["table,graph".toList])) (some "csv".toList) = false := by decide
example : shouldRegenerate (refTable true (some ["table".toList])) (some "csv".toList) = true := by decide

end TddaVerif.Props.C10
