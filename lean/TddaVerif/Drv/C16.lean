import TddaVerif.Drv.Util
import TddaVerif.Model.Csvw
import TddaVerif.Generated.Csvw
import TddaVerif.Model.CsvwDialect
open Lean TddaVerif.Drv TddaVerif.Csvw

namespace TddaVerif.Drv.C16

def asJV (j : Json) : R TddaVerif.CsvwDialect.JV :=
  match j with
  | Json.str "\u0000absent" => pure .absent
  | Json.null => pure .null
  | Json.bool b => pure (.bool b)
  | Json.num n => if n.exponent == 0 && n.mantissa ≥ 0 then pure (.num n.mantissa.toNat) else pure .other
  | _ => pure .other

def handle (op : String) (j : Json) : Option (R Json) :=
  match op with
  | "c16.dialect" => some do
      let h ← asJV (← fld j "header")
      let c ← asJV (← fld j "count")
      let names ← asList asChars (← fld j "names")
      pure (ofOpt (ofList ofChars) (TddaVerif.CsvwDialect.headerKw h c names))
  | "c16.date_format" => some do
      let fmt ← asChars (← fld j "fmt")
      let ext ← asBool (← fld j "ext")
      pure (ofChars (translate TddaVerif.Generated.Csvw.chain TddaVerif.Generated.Csvw.extChain ext fmt))
  | "c16.replace" => some do
      let s ← asChars (← fld j "s")
      let o ← asChars (← fld j "old")
      let n ← asChars (← fld j "new")
      if o.isEmpty then throw "empty-old" else pure (ofChars (TddaVerif.Py.replace o n s))
  | "c16.pandas_dtype" => some do
      let t ← asChars (← fld j "t")
      let r := (lookup TddaVerif.Generated.Csvw.csvwTypeToMtype t).bind
                 (lookup TddaVerif.Generated.Csvw.mtypeToPandas)
      pure (ofOpt ofChars r)
  | _ => none

end TddaVerif.Drv.C16
