import TddaVerif.Drv.Util
import TddaVerif.Model.Csvw
import TddaVerif.Generated.Csvw
open Lean TddaVerif.Drv TddaVerif.Csvw

namespace TddaVerif.Drv.C16

def handle (op : String) (j : Json) : Option (R Json) :=
  match op with
  | "c16.date_format" => some do
      let fmt ← asChars (← fld j "fmt")
      let ext ← asBool (← fld j "ext")
      pure (ofChars (translate TddaVerif.Generated.Csvw.chain TddaVerif.Generated.Csvw.extChain ext fmt))
  | "c16.replace" => some do
      let s ← asChars (← fld j "s")
      let o ← asChars (← fld j "old")
      let n ← asChars (← fld j "new")
      if o.isEmpty then throw "empty-old" else pure (ofChars (TddaVerif.Py.replace o n s))
  | "c16.pandas_dtype" => some do
      let t ← asChars (← fld j "t")
      let r := (lookup TddaVerif.Generated.Csvw.csvwTypeToMtype t).bind
                 (lookup TddaVerif.Generated.Csvw.mtypeToPandas)
      pure (ofOpt ofChars r)
  | _ => none

end TddaVerif.Drv.C16
