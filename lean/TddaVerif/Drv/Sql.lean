import TddaVerif.Drv.Util
import TddaVerif.Model.Sql
open Lean TddaVerif.Drv TddaVerif.Sql

namespace TddaVerif.Drv.Sql

def pairJson (p : Text × Text) : Json := Json.arr #[ofChars p.1, ofChars p.2]

def handle (op : String) (j : Json) : Option (R Json) :=
  match op with
  | "sql.quote_ident" => some do pure (ofChars (quoteIdent (← asChars (← fld j "s"))))
  | "sql.literal" => some do pure (ofChars (stringLiteral (← asChars (← fld j "s"))))
  | "sql.rex_sql" => some do
      pure (ofChars (rexSql (← asChars (← fld j "table")) (← asChars (← fld j "name"))
                            (← asList asChars (← fld j "rexes"))))
  | "sql.lex" => some do
      let q ← asChars (← fld j "q")
      match q with
      | [qc] => pure (ofOpt pairJson (lexQuoted qc (← asChars (← fld j "text"))))
      | _ => throw "bad-quote"
  | "sql.parse_disj" => some do
      let t ← asChars (← fld j "text")
      match parseDisj (t.length + 1) t with
      | none => pure Json.null
      | some (ps, rest) => pure (Json.mkObj [("terms", ofList pairJson ps), ("rest", ofChars rest)])
  | _ => none

end TddaVerif.Drv.Sql
