/- JSON helpers for the line-protocol driver (core Lean only). -/
import Lean.Data.Json
open Lean

namespace TddaVerif.Drv

abbrev R := Except String

def fld (j : Json) (k : String) : R Json := j.getObjVal? k
def fldD (j : Json) (k : String) (d : Json) : Json := (j.getObjVal? k).toOption.getD d

def asNat (j : Json) : R Nat := j.getNat?
def asInt (j : Json) : R Int := j.getInt?
def asBool (j : Json) : R Bool := j.getBool?
def asStr (j : Json) : R String := j.getStr?
def asArr (j : Json) : R (Array Json) := j.getArr?

def asList {α} (f : Json → R α) (j : Json) : R (List α) := do
  let a ← j.getArr?
  a.toList.mapM f

def asOpt {α} (f : Json → R α) (j : Json) : R (Option α) :=
  if j.isNull then pure none else some <$> f j

def asChars (j : Json) : R (List Char) := do
  let s ← j.getStr?
  pure s.toList

def asCodes (j : Json) : R (List Nat) := do
  let s ← j.getStr?
  pure (s.toList.map Char.toNat)

def ofChars (cs : List Char) : Json := Json.str (String.ofList cs)
def ofCodes (cs : List Nat) : Json := Json.str (String.ofList (cs.map Char.ofNat))
def ofNat (n : Nat) : Json := Json.num (JsonNumber.fromNat n)
def ofInt (n : Int) : Json := Json.num (JsonNumber.fromInt n)
def ofList {α} (f : α → Json) (l : List α) : Json := Json.arr (l.map f).toArray
def ofOpt {α} (f : α → Json) : Option α → Json
  | none => Json.null
  | some a => f a

def ok (j : Json) : Json := Json.mkObj [("ok", j)]
def exc (e : String) : Json := Json.mkObj [("exc", Json.str e)]

end TddaVerif.Drv
