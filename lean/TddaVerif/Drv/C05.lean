import TddaVerif.Drv.Util
import TddaVerif.Model.CheckPandas
import TddaVerif.Model.Round
open Lean TddaVerif.Drv TddaVerif.Py TddaVerif.CheckPandas

namespace TddaVerif.Drv.C05

def parseLevel (j : Json) : R Level := do
  if j.isNull then pure .strict else
  match (← asStr j) with
  | "strict" => pure .strict | "medium" => pure .medium | "permissive" => pure .permissive
  | s => throw s!"bad level {s}"

def parseCols (j : Json) : R (List Col) :=
  asList (fun c => do
    let a ← asArr c
    pure ({ name := ← asChars a[0]!, dtype := ← asChars a[1]! } : Col)) j

def parseFlag (j : Json) : R Flag := asOpt (asList asChars) j

def handle (op : String) (j : Json) : Option (R Json) :=
  match op with
  | "c05.types_match" => some do
      pure (Json.bool (typesMatch (← asChars (← fld j "a")) (← asChars (← fld j "b")) (← parseLevel (← fld j "level"))))
  | "c05.loosen" => some do
      pure (ofChars (loosenType (← asChars (← fld j "t"))))
  | "c05.structure" => some do
      let act ← parseCols (← fld j "act")
      let ref ← parseCols (← fld j "ref")
      let ct ← parseFlag (fldD j "check_types" Json.null)
      let ce ← parseFlag (fldD j "check_extra_cols" Json.null)
      let coSkip ← asBool (fldD j "check_order_false" (Json.bool false))
      let co ← parseFlag (fldD j "check_order" Json.null)
      let lv ← parseLevel (fldD j "level" Json.null)
      let st := structureOf act ref ct ce (if coSkip then none else some co) lv
      pure (Json.mkObj [("missing", ofList ofChars st.missing), ("extra", ofList ofChars st.extra),
                        ("wrong_types", ofList ofChars st.wrongTypes), ("wrong_ordering", Json.bool st.wrongOrdering),
                        ("same", Json.bool st.same)])
  | "c05.check" => some do
      let act ← parseCols (← fld j "act")
      let ref ← parseCols (← fld j "ref")
      let cd ← parseFlag (fldD j "check_data" Json.null)
      let ct ← parseFlag (fldD j "check_types" Json.null)
      let ce ← parseFlag (fldD j "check_extra_cols" Json.null)
      let coSkip ← asBool (fldD j "check_order_false" (Json.bool false))
      let co ← parseFlag (fldD j "check_order" Json.null)
      let lv ← parseLevel (fldD j "level" Json.null)
      let nact ← asNat (← fld j "nact")
      let nref ← asNat (← fld j "nref")
      let diff ← asList asChars (← fld j "diffcols")
      pure (Json.bool (checkDataframe act ref nact nref cd ct ce (if coSkip then none else some co) lv
        (fun cols => cols.all (fun c => !diff.contains c))))
  | "c05.round" => some do
      -- x = num / den (exact value of a float), p decimals -> [numerator, denominator] of the rounded value
      let num ← asInt (← fld j "num")
      let den ← asNat (← fld j "den")
      let p ← asNat (← fld j "p")
      let r := TddaVerif.Round.roundTo p (mkRat num den)
      pure (Json.arr #[Json.num (Lean.JsonNumber.fromInt r.num), ofNat r.den])
  | "c05.cells_equal" => some do
      let cell (k : String) : R (Option Rat) := do
        let v := fldD j k Json.null
        if v.isNull then pure none else do
          let a ← asArr v
          pure (some (mkRat (← asInt a[0]!) (← asNat a[1]!)))
      pure (Json.bool (TddaVerif.Round.cellsEqual (← asNat (← fld j "p")) (← cell "x") (← cell "y")))
  | _ => none

end TddaVerif.Drv.C05
