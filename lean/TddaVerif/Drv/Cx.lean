import TddaVerif.Drv.Util
import TddaVerif.Model.DetectOut
import TddaVerif.Model.Constraints
open Lean TddaVerif.Drv TddaVerif.Constraints

namespace TddaVerif.Drv.Cx

def parseVal (j : Json) : R Val := do
  match j.getObjVal? "b" with
  | .ok v => pure (.b (← asBool v))
  | .error _ =>
  match j.getObjVal? "i" with
  | .ok v => pure (.i (← asInt v))
  | .error _ =>
  match j.getObjVal? "r" with
  | .ok v => do
      let a ← asArr v
      let n ← asInt a[0]!
      let d ← asNat a[1]!
      pure (.r (mkRat n d))
  | .error _ =>
  match j.getObjVal? "s" with
  | .ok v => pure (.s (← asChars v))
  | .error _ =>
  match j.getObjVal? "d" with
  | .ok v => pure (.d (← asInt v))
  | .error _ => throw "bad value"

def valJson : Val → Json
  | .b x => Json.mkObj [("b", Json.bool x)]
  | .i x => Json.mkObj [("i", ofInt x)]
  | .r x => Json.mkObj [("r", Json.arr #[ofInt x.num, ofNat x.den])]
  | .s x => Json.mkObj [("s", ofChars x)]
  | .d x => Json.mkObj [("d", ofInt x)]

def parseFType (s : String) : R FType :=
  match s with
  | "bool" => pure .bool | "int" => pure .int | "real" => pure .real
  | "string" => pure .string | "date" => pure .date | "other" => pure .other
  | _ => throw s!"bad ftype {s}"

def ftypeStr : FType → String
  | .bool => "bool" | .int => "int" | .real => "real" | .string => "string" | .date => "date" | .other => "other"

def parseColumn (j : Json) : R Column := do
  pure { name := ← asChars (← fld j "name"),
         ftype := ← parseFType (← asStr (← fld j "ftype")),
         cells := ← asList (asOpt parseVal) (← fld j "cells") }

def parsePrecision (j : Json) : R Precision := do
  if j.isNull then pure .fuzzy else
  match (← asStr j) with
  | "closed" => pure .closed | "open" => pure .open_ | "fuzzy" => pure .fuzzy
  | s => throw s!"bad precision {s}"

def parseSign (s : String) : R Sign :=
  match s with
  | "positive" => pure .positive | "non-negative" => pure .nonNegative | "zero" => pure .zero
  | "non-positive" => pure .nonPositive | "negative" => pure .negative | "null" => pure .null
  | _ => throw s!"bad sign {s}"

def signStr : Sign → String
  | .positive => "positive" | .nonNegative => "non-negative" | .zero => "zero"
  | .nonPositive => "non-positive" | .negative => "negative" | .null => "null"

def parseConstraint (j : Json) : R Constraint := do
  let k ← asStr (← fld j "k")
  let v := fldD j "v" Json.null
  match k with
  | "type" => pure (.type (← asOpt (asList (fun x => do parseFType (← asStr x))) v))
  | "min" => pure (.min (← asOpt parseVal v) (← parsePrecision (fldD j "p" Json.null)))
  | "max" => pure (.max (← asOpt parseVal v) (← parsePrecision (fldD j "p" Json.null)))
  | "min_length" => pure (.minLength (← asOpt asInt v))
  | "max_length" => pure (.maxLength (← asOpt asInt v))
  | "sign" => pure (.sign (← asOpt (fun x => do parseSign (← asStr x)) v))
  | "max_nulls" => pure (.maxNulls (← asOpt asInt v))
  | "no_duplicates" => pure (.noDuplicates (← asOpt asBool v))
  | "allowed_values" => pure (.allowedValues (← asOpt (asList parseVal) v))
  | "rex" => pure (.rex (← asOpt (asList asNat) v))
  | _ => throw s!"bad kind {k}"

def constraintJson : Constraint → Json
  | .type ts => Json.mkObj [("k", "type"), ("v", ofOpt (ofList (fun t => Json.str (ftypeStr t))) ts)]
  | .min v _ => Json.mkObj [("k", "min"), ("v", ofOpt valJson v)]
  | .max v _ => Json.mkObj [("k", "max"), ("v", ofOpt valJson v)]
  | .minLength n => Json.mkObj [("k", "min_length"), ("v", ofOpt ofInt n)]
  | .maxLength n => Json.mkObj [("k", "max_length"), ("v", ofOpt ofInt n)]
  | .sign s => Json.mkObj [("k", "sign"), ("v", ofOpt (fun x => Json.str (signStr x)) s)]
  | .maxNulls n => Json.mkObj [("k", "max_nulls"), ("v", ofOpt ofInt n)]
  | .noDuplicates v => Json.mkObj [("k", "no_duplicates"), ("v", ofOpt Json.bool v)]
  | .allowedValues vs => Json.mkObj [("k", "allowed_values"), ("v", ofOpt (ofList valJson) vs)]
  | .rex rs => Json.mkObj [("k", "rex"), ("v", ofOpt (ofList ofNat) rs)]

def parseCfg (j : Json) : R Cfg := do
  let e ← asArr (← fld j "eps")
  let rows ← asList (fun r => do
      let a ← asArr r
      pure ((← asNat a[0]!), (← asChars a[1]!), (← asBool a[2]!))) (fldD j "rx" (Json.arr #[]))
  pure { epsilon := mkRat (← asInt e[0]!) (← asNat e[1]!),
         strict := ← asBool (fldD j "strict" (Json.bool false)),
         rx := fun n s => match rows.find? (fun t => t.1 == n && t.2.1 == s) with
                          | some t => t.2.2 | none => false }

def optNat (o : Option Nat) : Json := ofOpt ofNat o

def handle (op : String) (j : Json) : Option (R Json) :=
  match op with
  | "cx.calc" => some do
      let c ← parseColumn (← fld j "col")
      pure (Json.mkObj [
        ("min", ofOpt valJson (calcMin c)), ("max", ofOpt valJson (calcMax c)),
        ("min_length", optNat (calcMinLength c)), ("max_length", optNat (calcMaxLength c)),
        ("null_count", ofNat (calcNullCount c)), ("non_null_count", ofNat (calcNonNullCount c)),
        ("nunique", ofNat (calcNunique c)), ("uniques", ofList valJson (calcUniques c)),
        ("non_integer_count", ofNat (calcNonIntegerCount c))])
  | "cx.verify" => some do
      let cfg ← parseCfg (← fld j "cfg")
      let frame ← asList parseColumn (← fld j "frame")
      let detect ← asBool (fldD j "detect" (Json.bool false))
      let cs ← asList (fun f => do
          let a ← asArr f
          pure ((← asChars a[0]!), (← asList parseConstraint a[1]!))) (← fld j "constraints")
      let v := verifyAll cfg frame detect cs
      pure (Json.mkObj [
        ("passes", ofNat v.passes), ("failures", ofNat v.failures),
        ("fields", ofList (fun (f : FieldResult) => Json.arr #[ofChars f.field, ofList Json.bool f.verdicts,
                                        ofNat f.passes, ofNat f.failures]) v.fields)])
  | "cx.discover" => some do
      let c ← parseColumn (← fld j "col")
      let nrec ← asNat (← fld j "nrec")
      let incRex ← asBool (fldD j "inc_rex" (Json.bool false))
      let rexIds ← asList asNat (fldD j "rex_ids" (Json.arr #[]))
      match discoverField incRex (fun _ => rexIds) c nrec with
      | .error _ => throw "UnboundLocalError"
      | .ok none => pure Json.null
      | .ok (some ks) => pure (ofList constraintJson ks)
  | "c06.written" => some do
      let nf ← asList asNat (← fld j "nf")
      let wa ← asBool (← fld j "write_all")
      pure (ofList (fun p => Json.arr #[ofNat p.1, ofNat p.2]) (TddaVerif.DetectOut.written nf wa))
  | "cx.detect" => some do
      let cfg ← parseCfg (← fld j "cfg")
      let c ← parseColumn (← fld j "col")
      let ks ← asList parseConstraint (← fld j "constraints")
      -- flags for the constraints that fail verification (detect = true), in order
      let failing := ks.filter (fun k => !verifyOn cfg c true k)
      let cols := failing.filterMap (detectFlags cfg c)
      let nf := nFailures cols c.cells.length
      pure (Json.mkObj [
        ("verdicts", ofList Json.bool (ks.map (verifyOn cfg c true))),
        ("flags", ofList (ofList (ofOpt Json.bool)) cols),
        ("n_failures", ofList ofNat nf),
        ("n_failing", ofNat (nFailing nf)), ("n_passing", ofNat (nPassing nf))])
  | "cx.fuzzy" => some do
      let a ← parseVal (← fld j "a")
      let b ← parseVal (← fld j "b")
      let e ← asArr (← fld j "eps")
      let eps := mkRat (← asInt e[0]!) (← asNat e[1]!)
      pure (Json.arr #[Json.bool (fuzzyGe a b eps), Json.bool (fuzzyLe a b eps)])
  | _ => none

end TddaVerif.Drv.Cx
