import TddaVerif.Drv.Util
import TddaVerif.Model.Coverage
open Lean TddaVerif.Drv TddaVerif.Coverage

namespace TddaVerif.Drv.C18

def covJson (c : Cov) : Json :=
  Json.arr #[ofNat c.n, ofNat c.nUniq, ofNat c.incr, ofNat c.incrUniq, ofNat c.index]

def handle (op : String) (j : Json) : Option (R Json) :=
  match op with
  | "c18.coverage" => some do
      -- ms[j][i] = does pattern j match example i ; freqs
      let ms ← asList (asList asBool) (← fld j "ms")
      let freqs ← asList asNat (← fld j "freqs")
      let dedup ← asBool (← fld j "dedup")
      pure (ofList ofNat (rexCoverage dedup (ms.map (fun row => row.zip freqs))))
  | "c18.tsort" => some do
      let ps ← asList asCodes (← fld j "pats")
      let (sp, idx) := terminateAndSort ps
      pure (Json.arr #[ofList ofCodes sp, ofList ofNat idx])
  | "c18.full" => some do
      let pats ← asList asStr (← fld j "pats")
      let idx ← asList asNat (← fld j "idx")
      let bs ← asList (asList asBool) (← fld j "bs")
      let freqs ← asList asNat (← fld j "freqs")
      let sd ← asBool (← fld j "sd")
      match fullIncr pats idx bs freqs sd with
      | none => throw "diverges"
      | some r => pure (ofList (fun (k, c) => Json.arr #[Json.str k, covJson c]) r)
  | "c18.incr" => some do
      let pats ← asList asStr (← fld j "pats")
      let idx ← asList asNat (← fld j "idx")
      let bs ← asList (asList asBool) (← fld j "bs")
      let freqs ← asList asNat (← fld j "freqs")
      let sd ← asBool (← fld j "sd")
      match incr pats idx bs freqs sd with
      | none => throw "diverges"
      | some r => pure (ofList (fun (k, c) => Json.arr #[Json.str k, ofNat c]) r)
  | "c18.nexamples" => some do
      let freqs ← asList asNat (← fld j "freqs")
      let dedup ← asBool (← fld j "dedup")
      pure (ofNat (nExamples dedup freqs))
  | _ => none

end TddaVerif.Drv.C18
