import TddaVerif.Drv.Util
import TddaVerif.Model.TddaMeta
import TddaVerif.Generated.Meta
import TddaVerif.Model.TddaFile
open Lean TddaVerif.Drv TddaVerif.Py TddaVerif.TddaFile

namespace TddaVerif.Drv.C09

def parseAtom (j : Json) : R Atom :=
  match j with
  | .null => pure .null
  | .bool b => pure (.bool b)
  | .str s => pure (.str s.toList)
  | .num _ => do pure (.int (← asInt j))
  | .obj _ => do
      match j.getObjVal? "f" with
      | .ok v => pure (.float (← asChars v))
      | .error _ =>
        let a ← asList asNat (← fld j "dt")
        let off ← (match j.getObjVal? "off" with
          | .ok v => do pure (some (← asInt v))
          | .error _ => pure none)
        pure (.datetime ⟨⟨a[0]!, a[1]!, a[2]!, a[3]!, a[4]!, a[5]!, a[6]!⟩, off⟩)
  | _ => throw "bad atom"

def atomJson : Atom → Json
  | .null => Json.null
  | .bool b => Json.bool b
  | .int n => ofInt n
  | .float r => Json.mkObj [("f", ofChars r)]
  | .str s => ofChars s
  | .datetime t =>
    let n := t.naive
    Json.mkObj ([("dt", ofList ofNat [n.y, n.mo, n.d, n.h, n.mi, n.s, n.us])] ++
      (match t.off with | none => [] | some o => [("off", ofInt o)]))

def parseJVal (j : Json) : R JVal :=
  match j with
  | .arr a => do pure (.list (← a.toList.mapM parseAtom))
  | .obj _ =>
    match j.getObjVal? "kw" with
    | .ok kw => do
        let kvs ← asList (fun p => do
            let a ← asArr p
            pure ((← asChars a[0]!), (← parseAtom a[1]!))) kw
        pure (.dict kvs)
    | .error _ => do pure (.atom (← parseAtom j))
  | _ => do pure (.atom (← parseAtom j))

def jvalJson : JVal → Json
  | .atom a => atomJson a
  | .list xs => ofList atomJson xs
  | .dict kvs => Json.mkObj [("kw", ofList (fun (kv : Line × Atom) => Json.arr #[ofChars kv.1, atomJson kv.2]) kvs)]

def conJson (c : Con) : Json :=
  Json.arr #[ofChars c.kind, jvalJson c.value, ofOpt ofChars c.precision]

def parseCon (j : Json) : R Con := do
  let a ← asArr j
  pure { kind := ← asChars a[0]!, value := ← parseJVal a[1]!, precision := ← asOpt asChars a[2]! }

def handle (op : String) (j : Json) : Option (R Json) :=
  match op with
  | "c09.meta" => some do
      -- md: [[key, null | text of the JSON value], ...] -> what get_metadata gives after loading it
      let md ← asList (fun e => do
          let a ← asArr e
          let v : TddaVerif.TddaMeta.MV ← (if a[1]!.isNull then pure .null else do pure (.val (← asChars a[1]!)))
          pure ((← asChars a[0]!), v)) (← fld j "md")
      let keys := TddaVerif.Generated.Meta.metadataKeys
      let out := TddaVerif.TddaMeta.getMeta keys (TddaVerif.TddaMeta.loadMeta keys md)
      pure (ofList (fun (p : List Char × TddaVerif.TddaMeta.MV) =>
        Json.arr #[ofChars p.1, match p.2 with | .null => Json.null | .val t => ofChars t]) out)
  | "c09.strip_lines" => some do
      pure (ofChars (stripLines (← asChars (← fld j "s"))))
  | "c09.preferred_order" => some do
      let ks ← asList asChars (← fld j "keys")
      let ps ← asList asChars (← fld j "preferred")
      pure (ofList ofChars (toPreferredOrder ks ps))
  | "c09.get_date" => some do
      match getDate (← asChars (← fld j "s")) with
      | .notDate => pure (Json.str "not-date")
      | .invalid => pure (Json.str "invalid")
      | .ok t => pure (atomJson (.datetime t))
  | "c09.str_datetime" => some do
      let a ← asList asNat (← fld j "dt")
      let off ← (match j.getObjVal? "off" with
        | .ok v => do pure (some (← asInt v))
        | .error _ => pure none)
      pure (ofChars (strDatetime ⟨⟨a[0]!, a[1]!, a[2]!, a[3]!, a[4]!, a[5]!, a[6]!⟩, off⟩))
  | "c09.from_dict" => some do
      let fields ← asList (fun f => do
          let a ← asArr f
          let kvs ← asList (fun p => do
              let b ← asArr p
              pure ((← asChars b[0]!), (← parseJVal b[1]!))) a[1]!
          pure ((← asChars a[0]!), kvs)) (← fld j "fields")
      match fromDict fields with
      | .error .typeError => throw "TypeError"
      | .error .invalidSpec => throw "InvalidConstraintSpecification"
      | .ok l => pure (Json.mkObj [
          ("fields", ofList (fun (f : Line × List Con) => Json.arr #[ofChars f.1, ofList conJson f.2]) l.fields),
          ("warnings", ofList (fun (w : Line × Line) => Json.arr #[ofChars w.1, ofChars w.2]) l.warnings)])
  | "c09.to_dict" => some do
      let fields ← asList (fun f => do
          let a ← asArr f
          pure ((← asChars a[0]!), (← asList parseCon a[1]!))) (← fld j "fields")
      pure (ofList (fun (f : Line × List (Line × JVal)) =>
              Json.arr #[ofChars f.1, ofList (fun (kv : Line × JVal) => Json.arr #[ofChars kv.1, jvalJson kv.2]) f.2])
            (toDict fields))
  | _ => none

end TddaVerif.Drv.C09
