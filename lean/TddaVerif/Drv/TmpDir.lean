import TddaVerif.Drv.Util
import TddaVerif.Model.TmpDir
open Lean TddaVerif.Drv TddaVerif.TmpDir

namespace TddaVerif.Drv.TmpDir

/-- "absent" = no set_defaults call; null = set_defaults(tmp_dir=None); a string otherwise -/
def asSetd (j : Json) : R (Option (Option Path)) :=
  match j with
  | Json.str "\u0000absent" => pure none
  | Json.null => pure (some none)
  | _ => do pure (some (some (← asChars j)))

def handle (op : String) (j : Json) : Option (R Json) :=
  match op with
  | "c15.tmpdir" => some do
      pure (ofChars (tmpDir (← asSetd (← fld j "setd")) (← asOpt asChars (← fld j "env")) (← asChars (← fld j "sys"))))
  | "c15.written" => some do
      let c : Call := { actualPath := ← asOpt asChars (← fld j "actual_path"), expectedPath := ← asOpt asChars (← fld j "expected_path"),
                        hasActualText := ← asBool (← fld j "has_actual"), hasExpectedText := ← asBool (← fld j "has_expected"),
                        reconstruction := ← asBool (← fld j "recon"), createTemporaries := ← asBool (← fld j "create") }
      pure (ofList ofChars (written (← asChars (← fld j "d")) c))
  | "c15.pathops" => some do
      let a ← asChars (← fld j "a")
      let b ← asChars (← fld j "b")
      pure (Json.mkObj [("join", ofChars (join a b)), ("basename", ofChars (basename b))])
  | _ => none

end TddaVerif.Drv.TmpDir
