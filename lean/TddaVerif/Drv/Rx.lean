import TddaVerif.Drv.Util
import TddaVerif.Model.Rexpy
import TddaVerif.Model.RexpySeries
import TddaVerif.Model.RexpySampled
import TddaVerif.Model.RexpyRender
open Lean TddaVerif.Drv TddaVerif.Py TddaVerif.Rexpy

namespace TddaVerif.Drv.Rx

def parseTable (j : Json) : R CharTable := do
  let rows ← asList (fun r => do
      let a ← asArr r
      let cs ← asChars a[0]!
      pure ((cs.headD ' '), (← asBool a[1]!), (← asBool a[2]!), (← asBool a[3]!))) j
  let look (sel : (Char × Bool × Bool × Bool) → Bool) (c : Char) : Bool :=
    match rows.find? (fun r => r.1 == c) with | some r => sel r | none => false
  pure { w := look (fun r => r.2.1), d := look (fun r => r.2.2.1), s := look (fun r => r.2.2.2) }

def parseOpts (j : Json) : R Opts := do
  pure { stripOpt := ← asBool (fldD j "strip" (Json.bool false)),
         removeEmpties := ← asBool (fldD j "remove_empties" (Json.bool false)),
         vlf := ← asBool (fldD j "vlf" (Json.bool false)),
         extras := ← asChars (fldD j "extras" (Json.str "")),
         maxPatterns := ← asOpt asNat (fldD j "max_patterns" Json.null),
         minStrings := ← asNat (fldD j "min_strings" (ofNat 1)),
         sizes := { maxStringsInGroup := ← asNat (fldD j "max_strings_in_group" (ofNat 10)) } }

def atomJson : Atom → Json
  | .code k => Json.arr #[Json.str "code", ofChars [k]]
  | .escStr s => Json.arr #[Json.str "str", ofChars s]
  | .escChar c => Json.arr #[Json.str "chr", ofChars [c]]
  | .rawChar c => Json.arr #[Json.str "raw", ofChars [c]]
  | .bracket cs => Json.arr #[Json.str "set", ofChars cs]

def fragJson (f : Frag) : Json :=
  Json.arr #[atomJson f.atom, ofNat f.m, ofOpt ofNat f.M, Json.bool f.fixed]

def handle (op : String) (j : Json) : Option (R Json) :=
  match op with
  | "rx.extract" => some do
      let T ← parseTable (← fld j "table")
      let o ← parseOpts (← fld j "opts")
      let tag ← asBool (fldD (← fld j "opts") "tag" (Json.bool false))
      let dialect ← asNat (fldD (← fld j "opts") "dialect" (ofNat 0))
      let items ← asList (fun it => do
          let a ← asArr it
          pure ((← asOpt asChars a[0]!), (← asNat a[1]!))) (← fld j "items")
      match extract T o.norm items with
      | none => throw "AssertionError"
      | some (ps, E, wsWrap) =>
        pure (Json.mkObj [
          ("rex", ofList (fun p => ofChars (patternText E dialect tag wsWrap p)) ps),
          ("ast", ofList (ofList fragJson) ps),
          ("extras", ofChars E)])
  | "rx.pdextract" => some do
      let T ← parseTable (← fld j "table")
      let cols ← asList (asList (asOpt asChars)) (← fld j "cols")
      let items := pdextractItems cols
      match extract T {} items with
      | none => throw "AssertionError"
      | some (ps, E, wsWrap) =>
        pure (Json.mkObj [
          ("rex", ofList (fun p => ofChars (patternText E 1 false wsWrap p)) ps),
          ("strings", ofList (fun (it : Option Line × Nat) => ofOpt ofChars it.1) items)])
  | "rx.extract_sampled" => some do
      let T ← parseTable (← fld j "table")
      let o ← parseOpts (← fld j "opts")
      let tag ← asBool (fldD (← fld j "opts") "tag" (Json.bool false))
      let dialect ← asNat (fldD (← fld j "opts") "dialect" (ofNat 0))
      let items ← asList (fun it => do
          let a ← asArr it
          pure ((← asOpt asChars a[0]!), (← asNat a[1]!))) (← fld j "items")
      let c ← fld j "cfg"
      let cfg : SampleCfg := { doAll := ← asNat (← fld c "do_all"), doAllExceptions := ← asNat (← fld c "do_all_exceptions"),
                               maxAttempts := ← asNat (← fld c "max_attempts") }
      -- the recorded results of the calls of random.sample, in order
      let picks ← asList (asList (fun e => do
          let a ← asArr e
          pure ((← asChars a[0]!), (← asNat a[1]!)))) (← fld j "picks")
      let pick : Pick := fun ev _ _ => picks.getD ev []
      match extractSampled T o.norm cfg pick items with
      | none => throw "AssertionError"
      | some (ps, E, wsWrap) =>
        pure (Json.mkObj [
          ("rex", ofList (fun p => ofChars (patternText E dialect tag wsWrap p)) ps),
          ("extras", ofChars E)])
  | "rx.clean" => some do
      let items ← asList (fun it => do
          let a ← asArr it
          pure ((← asOpt asChars a[0]!), (← asNat a[1]!))) (← fld j "items")
      let c := clean (← asBool (← fld j "strip")) (← asBool (← fld j "remove_empties")) items
      pure (Json.arr #[ofList ofChars c.strings, ofList ofNat c.freqs, ofNat c.nStripped])
  | "rx.match" => some do
      let T ← parseTable (← fld j "table")
      let E ← asChars (← fld j "extras")
      let s ← asChars (← fld j "s")
      -- pattern given as list of [atomkind, payload, m, M, fixed]
      let p ← asList (fun f => do
          let a ← asArr f
          let kind ← asStr a[0]!
          let payload ← asChars a[1]!
          let atom : Atom := match kind with
            | "code" => .code (payload.headD ' ')
            | "str" => .escStr payload
            | "chr" => .escChar (payload.headD ' ')
            | "raw" => .rawChar (payload.headD ' ')
            | _ => .bracket payload
          pure ({ atom := atom, m := ← asNat a[2]!, M := ← asOpt asNat a[3]!, fixed := ← asBool a[4]! } : Frag))
          (← fld j "pattern")
      pure (Json.bool (matchB T E p s))
  | _ => none

end TddaVerif.Drv.Rx
