import TddaVerif.Drv.Util
import TddaVerif.Model.Flags
import TddaVerif.Model.Applicable
import TddaVerif.Generated.Flags
open Lean TddaVerif.Drv TddaVerif.Flags

namespace TddaVerif.Drv.C17

def optsOf : Cmd → List Opt
  | .discover => TddaVerif.Generated.Flags.discoverOpts.map Opt.ofRow
  | .verify => TddaVerif.Generated.Flags.verifyOpts.map Opt.ofRow
  | .detect => TddaVerif.Generated.Flags.detectOpts.map Opt.ofRow

def pvalJson : PVal → Json
  | .b v => Json.bool v
  | .s v => ofChars v
  | .f raw => Json.mkObj [("float", ofChars raw)]
  | .l v => ofList ofChars v
  | .none => Json.null

def handle (op : String) (j : Json) : Option (R Json) :=
  match op with
  | "c17.params" => some do
      let cmd ← match (← asStr (← fld j "cmd")) with
        | "discover" => pure Cmd.discover | "verify" => pure Cmd.verify | "detect" => pure Cmd.detect
        | s => throw s!"bad cmd {s}"
      let argv ← asList asChars (← fld j "argv")
      match run cmd (optsOf cmd) argv with
      | .exit0 => pure (Json.str "exit0")
      | .reject => pure (Json.str "reject")
      | .run ps => pure (Json.mkObj (ps.map (fun kv => (kv.1, pvalJson kv.2))))
  | "c17.applicable" => some do
      let argv ← asList asChars (← fld j "argv")
      pure (Json.mkObj [
        ("applicable", Json.bool (TddaVerif.Applicable.applicable TddaVerif.Generated.Flags.applicableExts argv)),
        ("exts", ofList (fun a => ofChars (TddaVerif.Applicable.splitextExt a)) argv)])
  | _ => none

end TddaVerif.Drv.C17
