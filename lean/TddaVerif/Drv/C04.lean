import TddaVerif.Drv.Util
import TddaVerif.Model.CheckStrings
import TddaVerif.Model.Encoding
import TddaVerif.Generated.Utils
open Lean TddaVerif.Drv TddaVerif.Py TddaVerif.CheckStrings

namespace TddaVerif.Drv.C04

def parseOpts (j : Json) : R Opts := do
  pure { lstrip := ← asBool (fldD j "lstrip" (Json.bool false)),
         rstrip := ← asBool (fldD j "rstrip" (Json.bool false)),
         ignoreSubstrings := ← asList asChars (fldD j "ignore_substrings" (Json.arr #[])),
         npats := ← asNat (fldD j "npats" (ofNat 0)),
         removeLines := ← asList asChars (fldD j "remove_lines" (Json.arr #[])),
         maxPerm := ← asNat (fldD j "max_permutation_cases" (ofNat 0)),
         preprocess := ← asBool (fldD j "preprocess" (Json.bool false)),
         actualPath := ← asBool (fldD j "actual_path" (Json.bool false)),
         createTemporaries := ← asBool (fldD j "create_temporaries" (Json.bool true)) }

/-- pat table: list of [p, line, groups, left, right, startParen] -/
def parsePat (j : Json) : R PatFn := do
  let rows ← asList (fun r => do
      let a ← asArr r
      let p ← asNat a[0]!
      let line ← asChars a[1]!
      let g ← asNat a[2]!
      let l ← asChars a[3]!
      let rr ← asChars a[4]!
      let sp ← asBool a[5]!
      pure ((p, line), ({ groups := g, left := l, right := rr, startParen := sp } : PatRes))) j
  pure (fun p line => (rows.find? (fun kv => kv.1.1 == p && kv.1.2 == line)).map (·.2))

def feJson : Option FirstError → Json
  | none => Json.null
  | some (.content n l) => Json.arr #[Json.str "content", ofNat n, ofNat l]
  | some (.number f w) =>
    Json.arr #[Json.str "number", Json.bool f,
      match w with
      | .line n => ofNat n
      | .endOfReference => Json.str "end of reference file"
      | .endOfActual => Json.str "end of actual"]

def handle (op : String) (j : Json) : Option (R Json) :=
  match op with
  | "c04.encoding" => some do
      let k : TddaVerif.Encoding.Consts := ⟨TddaVerif.Generated.Utils.specialExt, TddaVerif.Generated.Utils.specialEnc,
        TddaVerif.Generated.Utils.defaultEnc⟩
      pure (ofChars (TddaVerif.Encoding.getEncoding k (← asChars (← fld j "path")) (← asOpt asChars (← fld j "enc"))))
  | "c04.check_strings" => some do
      let o ← parseOpts (← fld j "opts")
      let pat ← parsePat (fldD j "pat" (Json.arr #[]))
      let a ← asList asChars (← fld j "actual")
      let e ← asList asChars (← fld j "expected")
      let gnl ← asBool (fldD j "guide_nl" (Json.bool false))
      let r := checkStrings o pat a e
      let raw ← asChars (fldD j "raw_actual" (ofChars (joinNl a)))
      let pl := plan o r gnl raw
      pure (Json.mkObj [
        ("failures", ofNat r.failures),
        ("first_error", feJson r.firstError),
        ("recon", match r.reconstruction with
                  | none => Json.null
                  | some (ra, re) => Json.arr #[ofList ofChars ra, ofList ofChars re]),
        ("raw_actual", ofOpt ofChars pl.rawActual),
        ("diff_actual", ofOpt ofChars pl.diffActual),
        ("diff_expected", ofOpt ofChars pl.diffExpected)])
  | "c04.diff_marker" => some do
      pure (ofChars (diffMarker (← asChars (← fld j "l")) (← asChars (← fld j "r"))))
  | "c04.first_diff" => some do
      pure (ofNat (firstDiff (← asList asNat (← fld j "a")) (← asList asNat (← fld j "b"))))
  | "py.strip" => some do
      let s ← asChars (← fld j "s")
      pure (Json.arr #[ofChars (lstrip s), ofChars (rstrip s), ofChars (strip s)])
  | "py.splitlines" => some do
      let s ← asChars (← fld j "s")
      pure (ofList ofChars (splitlines s))
  | "py.sorted" => some do
      pure (ofList ofChars (sortLines (← asList asChars (← fld j "l"))))
  | "py.contains" => some do
      pure (Json.bool (contains (← asChars (← fld j "s")) (← asChars (← fld j "sub"))))
  | _ => none

end TddaVerif.Drv.C04
