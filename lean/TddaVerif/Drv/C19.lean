import TddaVerif.Drv.Util
import TddaVerif.Model.RefTestCase
import TddaVerif.Model.RefPytest
open Lean TddaVerif.Drv TddaVerif.Py TddaVerif.RefTestCase TddaVerif.RefPytest

namespace TddaVerif.Drv.C19

def parseClass (j : Json) : R TestClass := do
  pure { name := ← asChars (← fld j "name"),
         base := ← asOpt asNat (fldD j "base" Json.null),
         ownTag := ← asBool (← fld j "tag"),
         own := ← asList (fun m => do
                   let a ← asArr m
                   pure ((← asChars a[0]!), (← asBool a[1]!))) (← fld j "own") }

def handle (op : String) (j : Json) : Option (R Json) :=
  match op with
  | "c19.parse_argv" => some do
      let argv ← asList asChars (← fld j "argv")
      match parseArgv argv with
      | .error _ => throw "Exception"
      | .ok p => pure (Json.mkObj [
          ("argv", ofList ofChars p.argv), ("tagged", Json.bool p.tagged), ("check", Json.bool p.check),
          ("quiet", Json.bool p.quiet), ("regen", ofList (ofOpt ofChars) p.regen)])
  | "c19.pytest_filter" => some do
      let items ← asList (fun it => do
          pure ({ name := ← asChars (← fld it "name"), cls := ← asOpt asChars (fldD it "cls" Json.null),
                  clsTagged := ← asBool (← fld it "cls_tagged"), fnTagged := ← asBool (← fld it "fn_tagged") } : Item))
        (← fld j "items")
      let r := filterItems (← asBool (← fld j "run")) (← asBool (← fld j "show")) items
      pure (Json.mkObj [("kept", ofList (fun (i : Item) => ofChars i.name) r.1), ("printed", ofList ofChars r.2)])
  | "c10.pytest_ref" => some do
      let write ← asOpt (asList asChars) (fldD j "write" Json.null)
      let t := refTable (← asBool (← fld j "write_all")) write
      let kinds ← asList asChars (← fld j "kinds")
      pure (Json.mkObj [("regen", ofList (fun k => Json.bool (shouldRegenerate t (some k))) kinds),
                        ("unnamed", Json.bool (shouldRegenerate t none))])
  | "c19.select" => some do
      let cs ← asList parseClass (← fld j "classes")
      let tagged ← asBool (← fld j "tagged")
      let check ← asBool (← fld j "check")
      pure (Json.mkObj [
        ("run", ofList (fun (p : Arg × Arg) => Json.arr #[ofChars p.1, ofChars p.2]) (selectTests cs tagged check)),
        ("listed", ofList ofChars (listedClasses cs check))])
  | "c10.regen_history" => some do
      -- ops: ["set", kind|null, bool] | ["ask", kind|null]; answers for the asks
      let ops ← asList (fun o => do
          let a ← asArr o
          let tag ← asStr a[0]!
          let k ← asOpt asChars a[1]!
          let v ← if tag == "set" then asBool a[2]! else pure false
          pure (tag, k, v)) (← fld j "ops")
      let (_, outs) := ops.foldl (fun (st : RegenTable × List Bool) (o : String × Option Arg × Bool) =>
          if o.1 == "set" then (setRegeneration st.1 o.2.1 o.2.2, st.2)
          else (st.1, st.2 ++ [shouldRegenerate st.1 o.2.1])) (([] : RegenTable), ([] : List Bool))
      pure (ofList Json.bool outs)
  | _ => none

end TddaVerif.Drv.C19
