import TddaVerif.Drv.Util
import TddaVerif.Model.Report
import TddaVerif.Generated.Report
open Lean TddaVerif.Drv TddaVerif.Py TddaVerif.Report

namespace TddaVerif.Drv.Report

def markSet (ascii : Bool) : MarkSet :=
  let t := if ascii then TddaVerif.Generated.Report.safeMarks else TddaVerif.Generated.Report.marks
  { tick := t.1, cross := t.2.1, nothing := t.2.2 }

def handle (op : String) (j : Json) : Option (R Json) :=
  match op with
  | "c02.report" => some do
      let fields ← asList (fun f => do
          let vs ← asList (fun v => do
              let a ← asArr v
              pure ((← asChars a[0]!), (← asOpt asBool a[1]!))) (← fld f "verdicts")
          pure ({ name := ← asChars (← fld f "name"), failures := ← asNat (← fld f "failures"),
                  passes := ← asNat (← fld f "passes"), verdicts := vs } : Field)) (← fld j "fields")
      let mode ← (match (← asChars (← fld j "mode")) with
        | ['a', 'l', 'l'] => pure Mode.all
        | ['f', 'i', 'e', 'l', 'd', 's'] => pure Mode.fields
        | _ => pure Mode.records)
      pure (ofChars (reportText (markSet (← asBool (← fld j "ascii"))) mode fields (← asNat (← fld j "passes")) (← asNat (← fld j "failures"))))
  | _ => none

end TddaVerif.Drv.Report
