import TddaVerif.Drv.Util
import TddaVerif.Model.Gentest
import TddaVerif.Model.GentestExcl
import TddaVerif.Model.GentestScript
open Lean TddaVerif.Drv TddaVerif.Gentest

namespace TddaVerif.Drv.Gt

def kindStr : Option Kind → String
  | none => "fixed" | some .string => "String" | some .textFile => "TextFile" | some .binaryFile => "BinaryFile"

def handle (op : String) (j : Json) : Option (R Json) :=
  match op with
  | "gt.well_ordered" => some do
      let parts ← asList (fun e => do
          pure ({ defines := ← asList asChars (← fld e "defines"), uses := ← asList asChars (← fld e "uses") }
                : TddaVerif.GentestScript.Part)) (← fld j "parts")
      pure (Json.bool (TddaVerif.GentestScript.wellOrdered parts))
  | "gt.names" => some do
      let bs ← asList asChars (← fld j "basenames")
      pure (ofList ofChars (testNames isAsciiAlnum {} bs))
  | "gt.plan" => some do
      let so ← asBool (← fld j "stdout")
      let se ← asBool (← fld j "stderr")
      let files ← asList (fun f => do
          let a ← asArr f
          pure ((← asChars a[0]!), (← asBool a[1]!))) (← fld j "files")
      pure (ofList (fun (t : TestDef) => Json.arr #[ofChars t.name, Json.str (kindStr t.kind)]) (plan isAsciiAlnum so se files))
  | "gt.datelike" => some do
      pure (Json.bool (numDateLike (← asNat (← fld j "n1")) (← asNat (← fld j "n2")) (← asNat (← fld j "n3")) (fun _ _ _ => true)))
  | "gt.possible_date" => some do
      pure (Json.bool (possibleDate (← asNat (← fld j "y")) (← asNat (← fld j "m")) (← asNat (← fld j "d"))))
  | "gt.exclusions" => some do
      let e ← fld j "env"
      let env : Env := {
        host := ← asChars (← fld e "host"), ip := ← asOpt asChars (← fld e "ip"), cwd := ← asChars (← fld e "cwd"),
        homedir := ← asChars (← fld e "homedir"), user := ← asChars (← fld e "user"),
        tmpdir := ← asOpt asChars (← fld e "tmpdir"), userInHome := ← asBool (← fld e "user_in_home"),
        cwdInHome := ← asBool (← fld e "cwd_in_home") }
      let lines ← asList (fun l => do
          pure ({ text := ← asChars (← fld l "text"), plausibleDate := ← asBool (← fld l "plausible_date"),
                  dtLike := ← asBool (← fld l "dt_like"), dates := ← asList asChars (← fld l "dates"),
                  dts := ← asList asChars (← fld l "dts") } : LineInfo)) (← fld j "lines")
      let x := exclusions env (← asNat (← fld j "iterations")) lines
      pure (Json.mkObj [("substrings", ofList ofChars x.substrings), ("dates_to_rex", ofList ofChars x.datesToRex)])
  | _ => none

end TddaVerif.Drv.Gt
