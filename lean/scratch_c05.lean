import TddaVerif.Model.CheckPandas
import TddaVerif.Props.C05Spec
open TddaVerif.Py TddaVerif.CheckPandas TddaVerif.Props.C05

instance (a b : Line) (l : Level) : Decidable (TypesAgree a b l) := by unfold TypesAgree; infer_instance

def agreeB (act ref : List Col) (nact nref : Nat) (cd ct ce : Flag) (co : Option Flag) (level : Level)
    (ve : List Line → Bool) : Bool :=
  let an := act.map (·.name); let rn := ref.map (·.name)
  (resolve ct rn).all (fun c => an.contains c && rn.contains c &&
     (match dtypeC act c, dtypeC ref c with
      | some ta, some tr => decide (TypesAgree ta tr level)
      | _, _ => true))
  && (resolve ce an).all (fun c => rn.contains c)
  && (match co with
      | none => true
      | some f => an.filter (fun c => (resolve f rn).contains c && rn.contains c)
                  == rn.filter (fun c => (resolve f rn).contains c && an.contains c))
  && nact == nref
  && (resolve cd rn).all (fun c => an.contains c && rn.contains c)
  && ((resolve cd rn).isEmpty || ve (resolve cd rn))

def names : List Line := ["a".toList, "b".toList]
def dts : List Line := ["int64", "Int32", "float64", "category", "string", "object", "boolean", "datetime64[ns]"].map String.toList
def dtsSmall : List Line := ["int64", "float64", "category", "string"].map String.toList
def cols (ds : List Line) : List Col := names.flatMap (fun n => ds.map (fun d => ⟨n, d⟩))
def frames (ds : List Line) : List (List Col) :=
  [[]] ++ (cols ds).map (fun c => [c]) ++ (cols ds).flatMap (fun c => (cols ds).map (fun d => [c, d]))
def flags : List Flag := [none, some [], some ["a".toList], some ["c".toList], some ["a".toList, "b".toList],
  some ["b".toList, "a".toList], some ["a".toList, "a".toList], some ["a".toList, "c".toList]]
def cos : List (Option Flag) := none :: flags.map some
def levels : List Level := [.strict, .medium, .permissive]
def ves : List (List Line → Bool) := [fun _ => true, fun _ => false, fun l => l == ["a".toList], fun l => l.length == 2]

-- typesMatch vs TypesAgree, refl, symm, monotone
#eval (dts.flatMap fun a => dts.flatMap fun b => levels.map fun l =>
  (typesMatch a b l == decide (TypesAgree a b l)) && typesMatch a a l && (typesMatch a b l == typesMatch b a l)
   && (!typesMatch a b .strict || typesMatch a b .medium) && (!typesMatch a b .medium || typesMatch a b .permissive)).all id

-- main iff: brute force
def testIff (ds : List Line) (fl : List Flag) (col : List (Option Flag)) (lv : List Level) : Nat × Nat := Id.run do
  let mut bad := 0
  let mut tot := 0
  let mut pass := 0
  for act in frames ds do
    for ref in frames ds do
      for cd in fl do
        for ct in fl do
          for ce in fl do
            for co in col do
              for l in lv do
                for ve in ves do
                  for (na, nr) in [(1,1),(1,2)] do
                    tot := tot + 1
                    let m := checkDataframe act ref na nr cd ct ce co l ve
                    if m then pass := pass + 1
                    if m != agreeB act ref na nr cd ct ce co l ve then bad := bad + 1
  return (bad, pass)

#eval testIff ["int64".toList, "category".toList] [none, some [], some ["a".toList], some ["c".toList], some ["b".toList, "a".toList]] [none, some none, some (some []), some (some ["b".toList, "a".toList]), some (some ["a".toList])] [.medium]

#eval testIff dtsSmall [none, some ["a".toList], some ["a".toList, "c".toList]] [none, some none, some (some [])] levels

-- copy_passes
#eval Id.run do
  let mut bad := 0
  let mut n := 0
  for f in frames dtsSmall do
    let fn := f.map (·.name)
    for cd in flags do
      for ct in flags do
        for ce in flags do
          for co in cos do
            for l in levels do
              if (resolve ct fn).all fn.contains && (resolve cd fn).all fn.contains && (resolve ce fn).all fn.contains then
                n := n + 1
                if !checkDataframe f f 3 3 cd ct ce co l (fun _ => true) then bad := bad + 1
  return (bad, n)

-- swap (no nodup needed?)
def ls : List (List Line) := [[], ["x".toList], ["a".toList], ["x".toList, "b".toList]]
#eval Id.run do
  let mut bad := 0
  let a := "a".toList
  let b := "b".toList
  for pre in ls do
    for mid in ls do
      for post in ls do
        let L := pre ++ a :: mid ++ b :: post
        let L' := pre ++ b :: mid ++ a :: post
        if L'.filter (fun c => L.contains c && L.contains c) == L.filter (fun c => L.contains c && L'.contains c) then bad := bad + 1
  return bad
-- 3-col order
#eval
  let f (l : List String) : List Col := l.map (fun s => ⟨s.toList, "int64".toList⟩)
  [checkDataframe (f ["a","b","c"]) (f ["a","c","b"]) 1 1 none none none (some none) .strict (fun _ => true),
   checkDataframe (f ["a","b","c"]) (f ["a","c","b"]) 1 1 none none none none .strict (fun _ => true),
   checkDataframe (f ["a","b","c"]) (f ["a","c","b"]) 1 1 none none none (some (some ["a".toList, "b".toList])) .strict (fun _ => true),
   checkDataframe (f ["a","b","c"]) (f ["a","c","b"]) 1 1 none none none (some (some [])) .strict (fun _ => true),
   agreeB (f ["a","b","c"]) (f ["a","c","b"]) 1 1 none none none (some none) .strict (fun _ => true),
   agreeB (f ["a","b","c"]) (f ["a","c","b"]) 1 1 none none none (some (some ["a".toList, "b".toList])) .strict (fun _ => true)]
