"""Where failing assertions write their files (C15): the real add_failures with a recording write_file, the real resolution
of the temporary directory (in a fresh interpreter: TDDA_FAIL_DIR is read at import), against Model/TmpDir.lean."""
import json
import os
import subprocess
import sys

import core

core.setup_repo_path()
from tdda.referencetest.checkfiles import FilesComparison  # noqa: E402

ABSENT = '\x00absent'
PATHS = [None, None, '', 'out/act.txt', '/abs/dir/ref.txt', 'name', 'dir/', 'a//b', '/x', 'é/ü.txt', 'with space/f x.txt',
         '.hidden', 'a/b/', 'ref/STDOUT', '/', 'x/actual-raw-y']
DIRS = ['/t/tmp', '/t/tmp/', 'rel/tmp', '/', 'x', '/t//', 'é dir']
SETD = [ABSENT, None, '', '/conf/tmp', 'rel/tmp']
ENVS = [None, '', '/e/fail', 'rel/fail']      # (a relative directory is relative to where the tests run)
SYS = '/sys/tmp'


def gen_written(rng):
    return {'entry': 'written', 'd': rng.choice(DIRS), 'actual_path': rng.choice(PATHS), 'expected_path': rng.choice(PATHS),
            'has_actual': rng.random() < 0.6, 'has_expected': rng.random() < 0.6, 'recon': rng.random() < 0.6,
            'create': rng.random() < 0.85}


class _Recon:
    def actual_lines(self):
        return ''

    def expected_lines(self):
        return ''


class _Rec(FilesComparison):
    def write_file(self, filename, contents, guide=None, encoding=None):
        self.written.append(filename)


def run_written(case):
    """the paths the real add_failures hands to write_file, in order"""
    r = _Rec(print_fn=None, verbose=False, tmp_dir=case['d'])
    r.written = []
    try:
        r.add_failures([], _Recon() if case['recon'] else None, case['actual_path'], case['expected_path'],
                       actual='a' if case['has_actual'] else None, expected=['e'] if case['has_expected'] else None,
                       create_temporaries=case['create'])
    except Exception as e:   # noqa
        return {'exc': type(e).__name__}
    return r.written


def written_op(case):
    return dict(op='c15.written', **{k: case[k] for k in ('d', 'actual_path', 'expected_path', 'has_actual', 'has_expected',
                                                            'recon', 'create')})


def pathops_op(a, b):
    return {'op': 'c15.pathops', 'a': a, 'b': b}


def pathops_impl(a, b):
    return {'join': os.path.join(a, b), 'basename': os.path.split(b)[1]}


_SCRIPT = r'''
import json, sys, tempfile
tempfile.tempdir = %(sys)r
sys.path.insert(0, %(repo)r)
from tdda.referencetest.referencetest import ReferenceTest
out = []
for v in %(setd)r:
    class R(ReferenceTest):
        verbose = False
    if v != %(absent)r:
        R.set_defaults(tmp_dir=v)
    r = R(lambda ok, msg: None)
    out.append(r.files.tmp_dir)
print("RESULT" + json.dumps(out))
'''


_TMPDIR_CACHE = {}


def run_tmpdir(env):
    """the directory the files comparison of a fresh test object writes to, for each set_defaults value, in a fresh interpreter
    with TDDA_FAIL_DIR = env (None: unset) and the system temporary directory pinned to SYS"""
    if env in _TMPDIR_CACHE:          # (one interpreter per value and per run of the check)
        return _TMPDIR_CACHE[env]
    e = dict(os.environ)
    e.pop('TDDA_FAIL_DIR', None)
    if env is not None:
        e['TDDA_FAIL_DIR'] = env
    script = _SCRIPT % {'sys': SYS, 'repo': core.REPO, 'setd': SETD, 'absent': ABSENT}
    p = subprocess.run([sys.executable, '-c', script], env=e, capture_output=True, text=True)
    for line in p.stdout.splitlines():
        if line.startswith('RESULT'):
            _TMPDIR_CACHE[env] = json.loads(line[6:])
            return _TMPDIR_CACHE[env]
    return [{'exc': (p.stderr or '')[-300:]}] * len(SETD)


def tmpdir_ops(env):
    return [{'op': 'c15.tmpdir', 'setd': v, 'env': env, 'sys': SYS} for v in SETD]


def expected_tmpdir(setd, env):
    """the documented rule: the configured directory; else TDDA_FAIL_DIR; else the system's"""
    if setd != ABSENT:
        return setd or SYS
    if env is not None:
        return env or SYS
    return SYS
