"""Helper for C14: evaluates rexpy.extract at the end of *histories* (lists of cases), each in a freshly
forked child of a process that has imported rexpy but extracted nothing yet.
stdin: JSON {"histories": [[case, ...], ...]}   stdout: JSON [result-of-last-case or {"exc": ...}, ...]"""
import json
import os
import sys

sys.path.insert(0, os.path.dirname(os.path.abspath(__file__)))
import core  # noqa: E402
core.setup_repo_path()
import rxcommon as rx  # noqa: E402


def run_history(h):
    out = None
    for case in h:
        res, exc, _, _ = rx.run_extract(case['examples'], case['opts'], case['size'], case['seed'], case.get('form', 'list'))
        out = {'exc': type(exc).__name__} if exc is not None else {'rex': list(res)}
    return out


def main():
    job = json.load(sys.stdin)
    results = []
    for h in job['histories']:
        r, w = os.pipe()
        pid = os.fork()
        if pid == 0:
            os.close(r)
            try:
                data = json.dumps(run_history(h))
            except BaseException as e:   # noqa
                data = json.dumps({'exc': 'helper:' + type(e).__name__})
            with os.fdopen(w, 'w') as f:
                f.write(data)
            os._exit(0)
        os.close(w)
        with os.fdopen(r) as f:
            data = f.read()
        os.waitpid(pid, 0)
        results.append(json.loads(data) if data else {'exc': 'helper:no-output'})
    json.dump(results, sys.stdout)


if __name__ == '__main__':
    main()
