"""Shared generators / conversions for the constraint properties (C01, C02, C06, C07, C09)."""
import datetime as dt
import math
import re
from fractions import Fraction

import core

core.setup_repo_path()
import numpy as np  # noqa: E402
import pandas as pd  # noqa: E402

EPOCH = dt.datetime(1970, 1, 1)
RE_FLAGS = re.UNICODE | re.DOTALL

# column families -> (tdda type seen by the code, can hold nulls)
FAMILIES = {
    'int64': 'int', 'int8': 'int', 'uint8': 'int', 'uint64': 'int', 'Int64': 'int', 'UInt8': 'int',
    'float64': 'real', 'float32': 'real', 'Float64': 'real',
    'bool': 'bool', 'boolean': 'bool', 'object-bool': 'bool',
    'object-str': 'string', 'string': 'string', 'category': 'string', 'category-unused': 'string',
    'datetime64[ns]': 'date', 'datetime64[us]': 'date', 'datetime64[ms]': 'date', 'datetime64[s]': 'date',
    'datetime-tz': 'date', 'object-date': 'date',
    'str': 'other',
    # opt-in only (C05): the same instants, timezone-aware, at two resolutions
    'datetime64[ns, UTC]': 'date', 'datetime64[us, UTC]': 'date',
}
OPT_IN = ('datetime64[ns, UTC]', 'datetime64[us, UTC]')
NULLABLE = {'Int64', 'UInt8', 'float64', 'float32', 'Float64', 'boolean', 'object-bool', 'object-str', 'string',
            'category', 'category-unused', 'datetime64[ns]', 'datetime64[us]', 'datetime64[ms]', 'datetime64[s]', 'datetime-tz',
            'object-date', 'str', 'datetime64[ns, UTC]', 'datetime64[us, UTC]'}
STR_POOL = ['a', 'b', 'abc', 'ab', 'AB', '', ' ', 'x y', 'abc\n', '#tag', 'ab1', 'l\u2028s', 'n\u0085l', 'p\u2029q',
            'NA', 'n/a', 'null', 'None', 'e\u0301', '\u212b', 'été', '日本', 'a1', '12', 'id-7', 'id-12', 'Zed', 'zed',
            "it's", 'q"t', 'back\\slash', 'line\nbreak', 'tab\t', 'é', 'ß', '٣', '²', 'a.b', '^-', 'foo', 'bar']
FLOAT_POOL = [0.0, 1.0, -1.0, 0.5, -0.5, 2.25, 100.0, -100.0, 1e10, -1e10, 0.125, 3.0, 7.0, -7.0, 1e-3 * 1024,
              123456.75, -0.0, 100000.375, 2.0000019073486328, 10000000000.5, 4.0, 12.0]
DATE_POOL = [dt.datetime(2020, 1, 2), dt.datetime(1999, 12, 31, 23, 59, 59), dt.datetime(2000, 2, 29, 12, 0, 0, 500000),
             dt.datetime(1970, 1, 1), dt.datetime(2038, 1, 19, 3, 14, 7), dt.datetime(1900, 1, 1),
             dt.datetime(2021, 6, 15, 8, 30), dt.datetime(2021, 6, 15, 8, 30, 0, 1)]


NOTE_WORDS = ['call', 'back', 'on', 'Monday', 're', 'order', 'no', 'A17', 'client', 'said', 'ok', 'then', 'left', 'x2']


def long_note(rng):
    words = [rng.choice(NOTE_WORDS) for _ in range(rng.randint(52, 64))]
    for _ in range(rng.choice([0, 1, 1, 2])):
        words[rng.randrange(1, len(words))] = '\n' + rng.choice(NOTE_WORDS)
    return ' '.join(words)


def gen_cells(rng, fam, n):
    nullp = rng.choice([0, 0, 0, 0.15, 0.4, 1.0]) if fam in NULLABLE else 0
    cells = []
    small = rng.random() < 0.5   # few distinct values -> duplicates
    if FAMILIES[fam] == 'real' and fam != 'float32' and rng.random() < 0.2 and n > 0:
        # values around the edges of a fuzzy band b*(1 +- eps) for dyadic b and eps (exact in floating point)
        b = rng.choice([-128.0, -64.0, -8.0, 8.0, 64.0, 128.0])
        eps = rng.choice([0.5, 0.25, 0.125])
        pts = [b, b * (1 + eps), b * (1 - eps), b * (1 + eps) + 0.5, b * (1 + eps) - 0.5, b * (1 - eps) + 0.5,
               b * (1 - eps) - 0.5, b + 0.5, b - 0.5]
        return [None if rng.random() < nullp else rng.choice(pts) for _ in range(n)]
    if FAMILIES[fam] == 'real' and fam != 'float32' and rng.random() < 0.25 and n > 0:
        # whole-number reals, with at most one value that is nearly (but not) whole: the sloppy int / bool rule
        out = [None if rng.random() < nullp else float(rng.choice([0, 1, 2, 7, 100000, -3, 10 ** 10])) for _ in range(n)]
        if rng.random() < 0.6:
            out[rng.randrange(n)] = rng.choice([100000.375, 2.0000019073486328, 10000000000.5, 1.5, 123456.75])
        return out
    for _ in range(n):
        if rng.random() < nullp:
            cells.append(None)
            continue
        t = FAMILIES[fam]
        if fam == 'int8':
            cells.append(rng.randint(-128, 127) if not small else rng.choice([-1, 0, 1]))
        elif fam in ('uint8', 'UInt8'):
            cells.append(rng.randint(0, 255) if not small else rng.choice([0, 1, 2]))
        elif fam == 'uint64':
            cells.append(rng.choice([0, 1, 2 ** 63, 2 ** 64 - 1, rng.randint(0, 1000)]))
        elif t == 'int':
            cells.append(rng.choice([0, 1, -1, 7, -7, 2 ** 40, -2 ** 40, 2 ** 62, 2 ** 53 + 1, -2 ** 53 - 1, 2 ** 62 + 1,
                                     rng.randint(-50, 50)]) if not small
                         else rng.choice([0, 1, 2, -3]))
        elif t == 'real':
            v = rng.choice(FLOAT_POOL) if not small else rng.choice([0.0, 1.0, 2.5, -2.5])
            if fam == 'float32':
                v = float(np.float32(v))
            if rng.random() < 0.03 and fam != 'Float64':
                v = rng.choice([float('inf'), float('-inf')])
            cells.append(v)
        elif t == 'bool':
            cells.append(rng.random() < 0.5)
        elif t in ('string', 'other'):
            cells.append(rng.choice(STR_POOL) if not small else rng.choice(['a', 'b', 'abc']))
        else:
            d = rng.choice(DATE_POOL) if not small else rng.choice(DATE_POOL[:3])
            if not small and rng.random() < 0.35:
                d = d.replace(microsecond=rng.choice([rng.randrange(10 ** 6), 1001, 249, 999999]))
            if fam == 'datetime64[s]':
                d = d.replace(microsecond=0)
            elif fam == 'datetime64[ms]':
                d = d.replace(microsecond=d.microsecond // 1000 * 1000)
            elif fam == 'object-date':
                d = d.date()
            cells.append(d)
    if FAMILIES[fam] in ('string', 'other') and fam not in ('category', 'category-unused') and rng.random() < 0.04:
        # free text: long multi-line notes (more than 99 runs of letters / blanks each, where rexpy falls back to '.')
        cells = [None if c is None else long_note(rng) for c in cells]
    if fam == 'string' or fam == 'object-str':
        # many categories sometimes
        if rng.random() < 0.15:
            cells = [None if c is None else 'cat%02d' % rng.randint(0, 24) for c in cells]
    return cells


NAME_POOL = ['a', 'b', 'col', 'x y', 'été', 'n°', 'f', 'min', 'type', 'a_b', 'A']


def gen_frame(rng, fams=None, maxrows=10, maxcols=3):
    n = rng.choice([0, 1, 2, 3, 3, 4, 5, 6, 8, maxrows])
    if rng.random() < 0.08:
        n = rng.randint(21, 26)
    ncol = rng.randint(1, maxcols)
    fams = fams or [f for f in FAMILIES if f not in OPT_IN]
    sfams = [f for f in fams if FAMILIES[f] in ('string', 'other') and f != 'category-unused']
    codes = None
    if sfams and rng.random() < 0.05:
        # more than a dozen distinct codes of one shape, the later ones (in sorted order) from a wider character class
        codes = ['%04d' % (1001 + i) for i in range(12)] + ['A001', 'B002', 'C003', 'D004', 'zz01']
        n = len(codes) + rng.randint(0, 3)
    cols = []
    for j in range(ncol):
        fam = rng.choice(fams)
        cols.append({'name': rng.choice(NAME_POOL) + str(j), 'fam': fam, 'cells': gen_cells(rng, fam, n)})
    if sfams and not codes and rng.random() < 0.04 and n >= 3:
        # shapes that continue one another: a shorter shape ends where a constant fragment of a longer one stands
        fam = rng.choice(sfams)
        pool = rng.choice([['id:', 'id:1', 'id:22', 'id:333'], ['ab-', 'ef-12', 'gh-7', 'xy-'], ['ID:7', 'ID:7 (old)', 'ID:8'],
                           ['AB-12', 'AB-12 x', 'CD-34']])
        cols[0] = {'name': cols[0]['name'], 'fam': fam, 'cells': [rng.choice(pool) for _ in range(n)]}
    if sfams and not codes and rng.random() < 0.04 and n >= 2:
        # quantities with superscripts (digits to str.isdigit, not to a regular expression's [0-9] or \d)
        pool = rng.choice([['x²', 'y³', 'z²', 'w³'], ['12 m²', '7 cm²', '3 m³', '40 km²'], ['a¹', 'b²', 'c³'], ['m²', 'm³']])
        cols[-1] = {'name': cols[-1]['name'], 'fam': rng.choice(sfams), 'cells': [rng.choice(pool) for _ in range(n)]}
    if codes:
        cells = codes + [rng.choice(codes + [None]) for _ in range(n - len(codes))]
        rng.shuffle(cells)
        cols[0] = {'name': cols[0]['name'], 'fam': rng.choice(sfams), 'cells': cells}
    return {'nrows': n, 'cols': cols}


def to_series(col):
    fam, cells = col['fam'], col['cells']
    if fam in ('int64', 'int8', 'uint8', 'uint64'):
        return pd.Series(cells, dtype=fam)
    if fam in ('Int64', 'UInt8', 'Float64', 'boolean', 'string'):
        return pd.Series([pd.NA if c is None else c for c in cells], dtype=fam)
    if fam in ('float64', 'float32'):
        return pd.Series([np.nan if c is None else c for c in cells], dtype=fam)
    if fam == 'bool':
        return pd.Series(cells, dtype=bool)
    if fam in ('object-bool', 'object-str', 'object-date'):
        return pd.Series(cells, dtype=object)
    if fam == 'category':
        return pd.Series(pd.Categorical([c for c in cells]))
    if fam == 'category-unused':
        # a categorical that declares categories no row uses (e.g. after filtering rows)
        seen = sorted({c for c in cells if c is not None})
        return pd.Series(pd.Categorical([c for c in cells], categories=seen + ['unused-1', 'unused-2']))
    if fam == 'str':
        return pd.Series([np.nan if c is None else c for c in cells], dtype='str')
    if fam in OPT_IN:
        return pd.Series([pd.NaT if c is None else pd.Timestamp(c, tz='UTC') for c in cells], dtype='datetime64[ns, UTC]').astype(fam)
    if fam.startswith('datetime64'):
        return pd.Series([pd.NaT if c is None else pd.Timestamp(c) for c in cells]).astype(fam)
    if fam == 'datetime-tz':
        tz = col.get('tz', 'Europe/London')      # (C01 also uses zones at a negative offset that is not a whole hour)
        return pd.Series([pd.NaT if c is None else pd.Timestamp(c, tz=tz) for c in cells], dtype='datetime64[ns, %s]' % tz)
    raise ValueError(fam)


def to_df(frame):
    d = {}
    for c in frame['cols']:
        d[c['name']] = to_series(c)
    df = pd.DataFrame(d) if d else pd.DataFrame()
    return df


def frac(x):
    f = Fraction(x)
    return [f.numerator, f.denominator]


def micros(d):
    if isinstance(d, dt.datetime):
        delta = d.replace(tzinfo=None) - EPOCH
    else:
        delta = dt.datetime(d.year, d.month, d.day) - EPOCH
    return delta.days * 86400 * 10 ** 6 + delta.seconds * 10 ** 6 + delta.microseconds


def val_json(v, ftype=None):
    """Python scalar -> model Val JSON (None for nulls). Raises ValueError when not representable."""
    if v is None or v is pd.NA or v is pd.NaT:
        return None
    if isinstance(v, (bool, np.bool_)):
        return {'b': bool(v)}
    if isinstance(v, (int, np.integer)):
        return {'i': int(v)}
    if isinstance(v, (float, np.floating)):
        if math.isnan(v):
            return None
        if math.isinf(v):
            raise ValueError('inf')
        return {'r': frac(float(v))}
    if isinstance(v, str):
        return {'s': v}
    if isinstance(v, pd.Timestamp):
        if v.tzinfo is not None:
            raise ValueError('tz')
        return {'d': micros(v.to_pydatetime(warn=False))}
    if isinstance(v, (dt.datetime, dt.date)):
        if getattr(v, 'tzinfo', None) is not None:
            raise ValueError('tz')
        return {'d': micros(v)}
    raise ValueError('unrepresentable %r' % (v,))


def col_ftype(col):
    """tdda type as the code can possibly know it: an object-dtype column with no non-null cell carries no
    type information and is classed as string (pandas_tdda_type)"""
    fam = col['fam']
    if fam.startswith('object-') and all(c is None for c in col['cells']):
        return 'string'
    return FAMILIES[fam]


def model_col(col):
    """Abstract column for the Lean model. Raises ValueError if outside the modelled domain."""
    fam = col['fam']
    if fam in ('datetime-tz',):
        raise ValueError('tz')
    ftype = col_ftype(col)
    cells = []
    for c in col['cells']:
        if c is None:
            cells.append(None)
        elif ftype == 'real':
            cells.append(val_json(float(c)))
        else:
            cells.append(val_json(c))
    return {'name': col['name'], 'ftype': ftype, 'cells': cells}


def py_of_val(j):
    """model Val JSON -> comparable python value (Fraction for numbers)"""
    if j is None:
        return None
    if 'b' in j:
        return ('n', Fraction(int(j['b'])))
    if 'i' in j:
        return ('n', Fraction(j['i']))
    if 'r' in j:
        return ('n', Fraction(j['r'][0], j['r'][1]))
    if 's' in j:
        return ('s', j['s'])
    return ('d', j['d'])


def canon_val(j):
    """canonical form for comparing model / impl values: numbers compare by value and kind"""
    if j is None:
        return None
    if 'r' in j:
        f = Fraction(j['r'][0], j['r'][1])
        return {'r': [f.numerator, f.denominator]}
    return j


def rx_table(rexes, strings):
    rows = []
    for i, r in enumerate(rexes):
        cr = re.compile(r, RE_FLAGS)
        for s in strings:
            rows.append([i, s, re.match(cr, s) is not None])
    return rows


def revive(obj):
    """cases that went through JSON (replay files, recorded inputs of listed findings): datetime cells of date columns and
    date-valued bounds are strings there - turn them back into the datetime / date objects the generators produce"""
    def parse(v, as_date=False):
        if not isinstance(v, str):
            return v
        for fmt in ('%Y-%m-%d %H:%M:%S.%f', '%Y-%m-%d %H:%M:%S', '%Y-%m-%d'):
            try:
                d = dt.datetime.strptime(v, fmt)
                return d.date() if (as_date or fmt == '%Y-%m-%d') else d
            except ValueError:
                pass
        return v
    if isinstance(obj, list):
        return [revive(x) for x in obj]
    if isinstance(obj, dict):
        out = {k: revive(v) for k, v in obj.items()}
        if 'fam' in out and 'cells' in out and FAMILIES.get(out['fam']) == 'date':
            out['cells'] = [parse(c, as_date=out['fam'] == 'object-date') for c in out['cells']]
        if out.get('kind') in ('min', 'max') and isinstance(out.get('value'), str) and parse(out['value']) is not out['value']:
            out['value'] = parse(out['value'])
        return out
    return obj
