"""Shared generators / runners for the rexpy properties (C03, C13, C14)."""
import random
import re

import core
import gens

core.setup_repo_path()
from tdda.rexpy import rexpy  # noqa: E402

FLAGS = re.UNICODE | re.DOTALL
DIALECTS = [None, 'perl', 'portable', 'grep']


def gen_examples(rng, exotic=None):
    """a list of example strings (with repeats), biased towards families that merge / refine"""
    exotic = rng.choice([0.0, 0.1, 0.3, 0.6]) if exotic is None else exotic
    ex = gens.example_list(rng, 12, exotic)
    if rng.random() < 0.15:
        # digit-like and non-ASCII decimal digits, punctuation pairs
        ex += [rng.choice(['10$', '25$', 'US$', 'a=$', '99$', '\\$', '²', '³', '½', '٣', '５', 'a²', '1²', '^-', '-^', '^', '-', ']-', '\\', 'a\\b', 'é1', 'Ⅷ', 'x_y',
                           'a.b', 'a-b', ' a', 'a ', '\ta', 'a\n', '\n', 'a\nb',
                           # literal text shaped like a quantifier / group / class / alternation
                           'x{3}', 'v{1,2}', 'w{1,2}', '{7}', 'ab{2}', 'cd{2}', 'id-{10}-a', 'x{y}', 'a{', '}', 'a*', 'b+', 'c?', '(a)',
                           '[ab]', 'a|b', 'x{,2}', 'q{2,}']) for _ in range(rng.randint(1, 3))]
    if rng.random() < 0.06:
        # groups in which every example has a non-ASCII decimal digit at the digit positions (no ASCII digit to lean on)
        ex = (list(ex) if rng.random() < 0.4 else []) + rng.choice([
            ['\u0661\u0662', '\u0663\u0664'], ['a\u0663', 'b\u0664', 'c\u0665'], ['\u0663', '\u0664', '\uff15'],
            ['x-\u0661\u0662', 'y-\u0663\u0664'], ['\u0967\u0968\u0969', '\u096a\u096b\u096c'], ['AB\u0661', 'CD\u0662', 'EF3']])
    if rng.random() < 0.05:
        # many examples of one shape in ASCII digits and one or two in other decimal digits (under sampling the odd ones
        # are easily left out of the working set)
        ex = ['%02d' % rng.randint(0, 99) for _ in range(rng.randint(12, 30))] + \
             [rng.choice(['\u0663\u0664', '\u0661\u0669', '\uff11\uff12', '\u0967\u0968']) for _ in range(rng.randint(1, 2))]
        rng.shuffle(ex)
    if rng.random() < 0.08:
        # examples that are nothing but white space (what strip and remove_empties are about)
        ex = list(ex) + [rng.choice(['   ', '\t', ' ', '  ', ' \t ', '\n']) for _ in range(rng.randint(1, 3))]
    if rng.random() < 0.04:
        # nothing left to extract from: no examples, or only values the options remove
        ex = rng.choice([[], [None], [None, None], ['', ' ', '  '], ['']])
    if rng.random() < 0.12:
        # a wide group: > max_strings_in_group distinct values in one fragment, the late ones with new characters
        ex = list(ex) if rng.random() < 0.3 else []
        kind = rng.choice(['word', 'punc', 'mixed'])
        n = rng.randint(10, 22)
        if kind == 'word':
            ex += [''.join(rng.choice('abcdefgh') for _ in range(rng.randint(2, 4))) for _ in range(n)]
            ex += [rng.choice(['x9z', 'Q7', 'aB', 'zz1', 'É', 'a_'])for _ in range(rng.randint(1, 3))]
        elif kind == 'punc':
            ex += ['a' + ''.join(rng.choice('.-') for _ in range(rng.randint(1, 3))) + 'b' + str(i) for i in range(n)]
            ex += [rng.choice(['a/b1', 'a:b2', 'a..-/b3', 'a b4'])for _ in range(rng.randint(1, 2))]
        else:
            ex += ['%s-%d' % (rng.choice('ABCD') * rng.randint(1, 2), rng.randint(0, 999)) for _ in range(n)]
            ex += [rng.choice(['ab-12', 'A1-7', 'Z-x', 'AA-٣'])for _ in range(rng.randint(1, 2))]
    if rng.random() < 0.12:
        # optional tails of very different lengths (with variableLengthFrags: fragments with minimum 0 and no maximum)
        stem = rng.choice(['ab', 'ID', 'x-', 'q'])
        tail = rng.choice(['c', '7', '0', 'z'])
        ex = (list(ex) if rng.random() < 0.3 else []) + [stem + tail * k for k in rng.sample(range(0, 7), rng.randint(2, 4))]
        if rng.random() < 0.5:
            ex += [rng.choice(['cd', 'ef', 'gh']) + d for d in ('', '12', '1234')]
    if rng.random() < 0.04:
        # strings that differ only behind a NUL character (some containers compare strings up to the first NUL)
        ex = (list(ex) if rng.random() < 0.5 else []) + rng.choice([['id\x00a1', 'id\x00b2', 'id\x00c3'], ['', '\x00-17', '\x00-18'],
                                                                     ['ab\x00', 'ab\x00x', 'ab']])
    if rng.random() < 0.07:
        # short words over a-f, words with later letters, and digit strings of the same lengths: adding one kind to the
        # working sample can re-class a fragment (hex digits) so that another kind falls out again
        n = rng.choice([2, 2, 3])
        ex = [''.join(rng.choice('abcdef') for _ in range(rng.choice([n, n, n + 1]))) for _ in range(rng.randint(3, 9))] + \
             [''.join(rng.choice('uvwxyzrst') for _ in range(rng.choice([n, n, n + 1]))) for _ in range(rng.randint(1, 5))] + \
             [''.join(rng.choice('0123456789') for _ in range(rng.choice([n, n, n + 1]))) for _ in range(rng.randint(1, 3))]
        rng.shuffle(ex)
    if rng.random() < 0.08 and ex:
        # the same strings with blanks around them (one string under strip, several without)
        base_ = [s_ for s_ in ex if isinstance(s_, str) and s_.strip()][:4]
        ex = list(ex) + [rng.choice([' ', '  ', '\t']) * rng.randint(0, 1) + s_ + rng.choice([' ', '  ']) * rng.randint(0, 1)
                         for s_ in base_ for _ in range(rng.randint(1, 3))]
    if rng.random() < 0.08:
        # a tail of one class, optional, after different runs in different examples (with variableLengthFrags: several
        # fragments with minimum 0 in one expression), of one, two or more characters
        k = rng.choice([1, 2, 2, 3, 4])
        word = lambda: ''.join(rng.choice('ABCDXYZW' if k > 2 else 'abcdxyzw') for _ in range(2))
        tail = (lambda: '0' * k) if rng.random() < 0.3 else (lambda: ''.join(rng.choice('0123456789') for _ in range(k)))
        sep = rng.choice('-/:')
        ex = (list(ex) if rng.random() < 0.2 else []) + [word() + tail() + sep + word(), word() + sep + word() + tail()]
        if rng.random() < 0.4:
            ex.append(word() + sep + word())
    if rng.random() < 0.08:
        # a fixed fragment shared at one end, alone in the shortest example and behind (or before) exactly one further
        # fragment in the others
        fixed = rng.choice(['.com', '/tmp', '-x', '.txt', ':80', '_id'])
        words = [''.join(rng.choice('abcdefuv') for _ in range(n)) for n in rng.sample([1, 2, 3, 3, 4], rng.randint(2, 3))]
        if rng.random() < 0.6:
            ex = (list(ex) if rng.random() < 0.2 else []) + [fixed] + [w + fixed for w in words]
        else:
            ex = (list(ex) if rng.random() < 0.2 else []) + [fixed] + [fixed + w for w in words]
    return ex


def gen_opts(rng):
    o = {}
    if rng.random() < 0.3:
        o['tag'] = True
    if rng.random() < 0.25:
        o['strip'] = True
    if rng.random() < (0.5 if o.get('strip') else 0.2):
        o['remove_empties'] = True
    if rng.random() < 0.3:
        o['variableLengthFrags'] = True
    if rng.random() < 0.25:
        o['extra_letters'] = rng.choice(['_', '-', '.', '_-', '_.', '-.', '_.-'])
    if rng.random() < 0.6:
        o['dialect'] = rng.choice(['perl', 'portable', 'grep'])
    if rng.random() < 0.12:
        o['full_escape'] = True
    return o


def gen_size(rng):
    if rng.random() < 0.65:
        return None
    if rng.random() < 0.25:
        # no sampling, only the cap on remembered strings per fragment (0 and 1 included)
        return {'do_all': 100000, 'do_all_exceptions': 4000, 'max_sampled_attempts': 2, 'n_per_length': 64,
                'max_strings_in_group': rng.choice([0, 0, 1, 2, 3])}
    return {'do_all': rng.randint(0, 6), 'do_all_exceptions': rng.randint(0, 4),
            'max_sampled_attempts': rng.randint(0, 2), 'n_per_length': rng.choice([1, 2, 64]),
            'max_strings_in_group': rng.choice([10, 10, 10, 0, 1, 2])}


def as_input(examples, form):
    """list / frequency dict / pandas column forms of the same multiset"""
    if form in ('dict', 'dict0'):
        d = {}
        for s in examples:
            d[s] = d.get(s, 0) + 1
        if form == 'dict0':
            # a Counter after subtraction: entries with a count of 0 are not examples
            for z in ZERO_COUNT:
                if z not in d:
                    d[z] = 0
        return d
    return list(examples)


ZERO_COUNT = ['zero-count-entry', 'ZZ 0', '']


def run_extract(examples, opts, size=None, seed=None, form='list', as_object=False, keep_random=True):
    """Call rexpy.extract (or pdextract); returns (result or exception, global PRNG state before, after)."""
    kw = dict(opts)
    if size:
        kw['size'] = rexpy.Size(**size)
    st0 = random.getstate()
    try:
        if form == 'series':
            import pandas as pd
            col = pd.Series([s for s in examples], dtype=object)
            res = rexpy.pdextract(col, seed=seed) if not kw else None
            if res is None:
                res = rexpy.extract(as_input(examples, 'list'), seed=seed, as_object=as_object, **kw)
        else:
            res = rexpy.extract(as_input(examples, form), seed=seed, as_object=as_object, **kw)
        exc = None
    except Exception as e:   # noqa
        res, exc = None, e
    st1 = random.getstate()
    if keep_random:
        random.setstate(st0)
    return res, exc, st0, st1


def kept_examples(examples, opts):
    """the examples an explicit option does not discard, after the requested stripping"""
    out = []
    for s in examples:
        if s is None:
            continue
        t = s.strip() if opts.get('strip') else s
        if opts.get('remove_empties') and t == '':
            continue
        out.append(t)
    return out


def full_match(r, s):
    """matched in full, reading r as a Python regular expression"""
    return re.fullmatch(re.compile(r, FLAGS), s) is not None


DIALECT_ID = {None: 0, 'perl': 0, 'portable': 1, 'grep': 2}
_W = re.compile(r'\w', FLAGS)
_D = re.compile(r'\d', FLAGS)
_S = re.compile(r'\s', FLAGS)


_D_ASCII = re.compile(r'[0-9]')


def char_table(strings, ascii_digits=False):
    """how re classifies every character that occurs: \\w, the digit class in force (\\d for the perl dialect, [0-9] for
    every other dialect: Extractor.__init__ classifies with the class it will write), \\s"""
    chars = sorted({c for s in strings if s is not None for c in s})
    D = _D_ASCII if ascii_digits else _D
    return [[c, _W.match(c) is not None, D.match(c) is not None, _S.match(c) is not None] for c in chars]


def model_extract_op(examples, opts, form='list', size=None):
    """the rx.extract op for a case without sampling"""
    if form in ('dict', 'dict0'):
        d = as_input(examples, form)
        items = [[k, v] for k, v in d.items()]
    else:
        items = [[s, 1] for s in examples]
    o = {'strip': bool(opts.get('strip')), 'remove_empties': bool(opts.get('remove_empties')),
         'vlf': bool(opts.get('variableLengthFrags')), 'extras': opts.get('extra_letters') or '',
         'tag': bool(opts.get('tag')), 'dialect': DIALECT_ID[opts.get('dialect', 'portable')],
         'max_patterns': opts.get('max_patterns'), 'min_strings': opts.get('min_strings_per_pattern', 1),
         'max_strings_in_group': (size or {}).get('max_strings_in_group', 10)}
    return {'op': 'rx.extract', 'table': char_table(examples, ascii_digits=o['dialect'] != 0), 'opts': o, 'items': items}


def nosampling(examples, opts, size):
    """True when extraction takes the batch path (the one the Lean model covers)"""
    if any(s is not None and '\x00' in s for s in examples) or opts.get('full_escape'):
        return False        # (full_escape rendering is not modelled: oracle only)
    if not size:
        return True
    return len(set(kept_examples(examples, opts))) <= size['do_all']


def impl_rex(examples, opts, size, seed, form):
    res, exc, _, _ = run_extract(examples, opts, size, seed, form)
    return {'exc': type(exc).__name__} if exc is not None else {'rex': list(res)}


def canon_rex(outs):
    return [{'rex': o['ok']['rex']} if 'ok' in o else {'exc': o.get('exc')} for o in outs]


RX_LEMMAS = ['TddaVerif.Props.C03.Lemmas.' + t for t in [
    'batch_extract_sound', 'extract_sound', 'batch_pattern_has_witness', 'batch_count_le', 'extract_subset_batch',
    'extract_empty']]


def fresh_results(histories, hashseed=0):
    """results of the last case of each history, each in a fresh process state (harness/rx_fresh.py)"""
    import subprocess
    import sys
    import json as _json
    import os as _os
    env = dict(_os.environ, PYTHONHASHSEED=str(hashseed))
    p = subprocess.run([sys.executable, _os.path.join(_os.path.dirname(_os.path.abspath(__file__)), 'rx_fresh.py')],
                       input=_json.dumps({'histories': histories}), capture_output=True, text=True, env=env, timeout=1800)
    if p.returncode != 0:
        raise RuntimeError('rx_fresh failed: ' + p.stderr[-400:])
    return _json.loads(p.stdout)


class _RecordingRandom:
    """stands in for the `random` module inside rexpy for one call: records what random.sample returns"""
    def __init__(self, real):
        self._real = real
        self.calls = []

    def sample(self, population, k):
        r = self._real.sample(population, k)
        self.calls.append([list(x) if isinstance(x, tuple) else x for x in r])
        return r

    def __getattr__(self, name):
        return getattr(self._real, name)


def run_extract_recorded(examples, opts, size, seed, form='list'):
    """run_extract, also returning the results of every random.sample call made by rexpy, in order"""
    rec = _RecordingRandom(rexpy.random)
    rexpy.random = rec
    try:
        res, exc, _, _ = run_extract(examples, opts, size, seed, form)
    finally:
        rexpy.random = rec._real
    return res, exc, rec.calls


def modelled(examples, opts):
    return not (any(s is not None and '\x00' in s for s in examples) or opts.get('full_escape'))


def model_sampled_op(examples, opts, size, picks, form='list'):
    op = model_extract_op(examples, opts, form, size)
    sz = rexpy.Size(**size)
    op['op'] = 'rx.extract_sampled'
    op['cfg'] = {'do_all': sz.do_all, 'do_all_exceptions': sz.do_all_exceptions, 'max_attempts': sz.max_sampled_attempts}
    op['picks'] = picks
    return op
