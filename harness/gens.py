"""Shared seeded generators (strings, example multisets)."""

ASCII_PRINT = [chr(c) for c in range(32, 127)]
CONTROL = ['\t', '\n', '\r', '\x0b', '\x0c', '\x00', '\x1c', '\x1f', '\x7f']
NONASCII = [' ', '\u0085', ' ', ' ', '　', '​', '﻿',
            'é', 'É', 'ß', 'Ω', 'ж', '日', '́',
            '٣', '５', '²', '³', '½', 'Ⅷ', 'ǅ',
            '\U0001f600', 'ก', 'ª', '①']
SIGMA = ASCII_PRINT + CONTROL + NONASCII
META = list('^$-[]\\.*+?(){}|/')
LETTERS = 'abcdefghijklmnopqrstuvwxyz'
DIGITS = '0123456789'


def rand_string(rng, maxlen=12, alphabet=None):
    alphabet = alphabet or SIGMA
    n = rng.choice([0, 1, 1, 2, 2, 3, 3, 4, 5, 6, 8, maxlen])
    return ''.join(rng.choice(alphabet) for _ in range(min(n, maxlen)))


def structured_string(rng):
    k = rng.randrange(14)
    d = lambda n: ''.join(rng.choice(DIGITS) for _ in range(n))
    a = lambda n: ''.join(rng.choice(LETTERS) for _ in range(n))
    A = lambda n: a(n).upper()
    if k == 0:
        return '%s-%s' % (A(2), d(rng.choice([2, 3, 4])))
    if k == 1:
        return '+%s %s %s' % (d(2), d(3), d(4))
    if k == 2:
        return 'http://%s.%s/%s' % (a(rng.randint(1, 6)), rng.choice(['com', 'org', 'co.uk']), a(rng.randint(0, 4)))
    if k == 3:
        return '%s.%s@%s.com' % (a(rng.randint(1, 5)), a(rng.randint(1, 5)), a(rng.randint(2, 6)))
    if k == 4:
        return '%s %s' % (A(1) + a(rng.randint(1, 6)), A(1) + a(rng.randint(1, 7)))
    if k == 5:
        return '(%s) %s-%s' % (d(3), d(3), d(4))
    if k == 6:
        return d(rng.randint(1, 6))
    if k == 7:
        return a(rng.randint(1, 6))
    if k == 8:
        return rng.choice(META) + rng.choice(META)
    if k == 9:
        return a(rng.randint(1, 3)) + rng.choice(META) + d(rng.randint(1, 3))
    if k == 10:
        return '%s_%s' % (a(rng.randint(1, 4)), d(rng.randint(1, 2)))
    if k == 11:
        return ''.join(rng.choice('0123456789abcdef') for _ in range(rng.choice([4, 8])))
    if k == 12:
        return ' ' * rng.randint(0, 2) + a(rng.randint(1, 4)) + ' ' * rng.randint(0, 2)
    return rng.choice(['', ' ', 'a', '1', '-', '^-', '-^', 'a1', 'A', 'été', '日本'])


def example_list(rng, maxn=10, exotic=0.3):
    """A list of example strings (with repeats)."""
    n = rng.choice([1, 1, 2, 3, 4, 5, 6, 8, maxn])
    mode = rng.random()
    out = []
    fam = rng.randrange(14)
    for _ in range(n):
        r = rng.random()
        if mode < 0.35:
            # one structured family, so that patterns get merged / refined
            s = structured_string(_FixedFamily(rng, fam))
        elif r < exotic:
            s = rand_string(rng)
        elif r < exotic + 0.15:
            s = rand_string(rng, 6, META + list('ab1 '))
        else:
            s = structured_string(rng)
        out.append(s)
        if rng.random() < 0.25 and out:
            out.append(rng.choice(out))
    return out


class _FixedFamily:
    """rng proxy whose first randrange(14) returns a fixed family."""

    def __init__(self, rng, fam):
        self._rng = rng
        self._fam = fam
        self._first = True

    def randrange(self, n):
        if self._first and n == 14:
            self._first = False
            return self._fam
        return self._rng.randrange(n)

    def __getattr__(self, k):
        return getattr(self._rng, k)
