"""Shared generator / runner for the text-comparison properties (C04, C15, parts of C10)."""
import os
import re
import shutil
import tempfile

import core

core.setup_repo_path()
from tdda.referencetest.referencetest import ReferenceTest  # noqa: E402
from tdda.referencetest.checkfiles import FilesComparison  # noqa: E402

PATTERN_POOL = [r'\d+', r'[a-z]+x', r'^ab', r'c$', r'^id: \d+$', r'foo', r'v\d+\.\d+', r'\d{4}-\d{2}-\d{2}',
                r'[A-Z]{2}', r'^\s*#.*$', r'x+', r'0x[0-9a-f]+', r'\d+ms']
PREPROCESS = {
    None: None,
    'lower': lambda ls: [l.lower() for l in ls],
    'drop_first': lambda ls: ls[1:],
    'no_digits': lambda ls: [re.sub(r'\d', '', l) for l in ls],
}
LINE_POOL = ['\ufeffabc', 'abc', 'ab c', 'id: 12', 'id: 345', 'took 12ms', 'took 7ms', 'v1.2 ok', 'v10.31 ok', 'foo bar', 'bar',
             '', ' ', '  abc', 'abc  ', '# comment', 'x', 'xx', 'XY z', '2020-01-02 done', '1999-12-31 done',
             'été', '日本 1', 'a\tb', '0xff', '0x1a2b', 'TAIL c', 'ab start', 'user bob', 'user alice', '12', '3',
             # characters that str.splitlines() treats as line boundaries but reading a file line by line does not
             'page\x0cbreak', 'v\x0bt', 'fs\x1cgs\x1drs\x1e', 'nel\x85x', 'ls\u2028x', 'ps\u2029x']


def gen_lines(rng):
    n = rng.choice([0, 1, 2, 2, 3, 3, 4, 5, 6])
    return [rng.choice(LINE_POOL) if rng.random() < 0.85 else
            ''.join(rng.choice('ab1 x.') for _ in range(rng.randint(0, 6))) for _ in range(n)]


def mutate_line(rng, l):
    r = rng.random()
    if r < 0.25 and l:
        i = rng.randrange(len(l))
        return l[:i] + rng.choice('abz19 ') + l[i + 1:]
    if r < 0.45:
        return re.sub(r'\d+', lambda m: str(rng.randint(0, 9999)), l) if re.search(r'\d', l) else l + '1'
    blank = rng.choice([' ', ' ', ' ', '\t', '\u00a0', '\u3000', '\u2003', '\x0c', '\x1f'])   # what str.strip() strips
    if r < 0.6:
        return blank * rng.randint(1, 2) + l
    if r < 0.75:
        return l + blank * rng.randint(1, 2)
    if r < 0.85:
        return l.upper() if l.upper() != l else l.lower()
    return rng.choice(LINE_POOL)


def join_text(rng, lines):
    """Lines -> text, choosing line endings and final newline."""
    nl = rng.choice(['\n', '\n', '\n', '\n', '\r\n'])
    t = nl.join(lines)
    if lines and rng.random() < 0.75:
        t += nl
    if rng.random() < 0.05:
        t += nl
    return t


def gen_perm_case(rng, entry=None):
    """distinct lines, a few swaps (permutation differences) plus a few genuine edits, with
    max_permutation_cases around the number of differing lines"""
    n = rng.randint(3, 8)
    exp = ['line %d %s' % (i, rng.choice(['a', 'b', 'total=100', 'x'])) for i in range(n)]
    if rng.random() < 0.25:
        # repeated lines: the same distinct lines in other numbers are not a permutation (alpha alpha beta / beta beta alpha)
        pool = rng.sample(['alpha', 'beta', 'gamma'], rng.randint(2, 3))
        exp = [rng.choice(pool) for _ in range(n)]
        act = [rng.choice(pool) for _ in range(n)] if rng.random() < 0.7 else rng.sample(exp, len(exp))
        ndiff = sum(1 for a, e in zip(act, exp) if a != e)
        return {'entry': entry or rng.choice(['string', 'file', 'files']), 'actual': join_text(rng, act),
                'expected': join_text(rng, exp), 'opts': {'max_permutation_cases': max(1, ndiff + rng.choice([0, 0, 1, 3]))}}
    act = list(exp)
    idx = list(range(n))
    rng.shuffle(idx)
    nsw = rng.choice([1, 1, 2])
    for k in range(nsw):
        if 2 * k + 1 < len(idx):
            i, j = idx[2 * k], idx[2 * k + 1]
            act[i], act[j] = act[j], act[i]
    rest = idx[2 * nsw:]
    nedit = rng.choice([0, 1, 1, 2])
    for i in rest[:nedit]:
        act[i] = act[i] + ' changed'
    ndiff = sum(1 for a, e in zip(act, exp) if a != e)
    opts = {'max_permutation_cases': max(1, ndiff + rng.choice([-2, -1, -1, 0, 0, 1]))}
    if rng.random() < 0.2:
        opts['rstrip'] = True
    return {'entry': entry or rng.choice(['string', 'file', 'files']),
            'actual': join_text(rng, act), 'expected': join_text(rng, exp), 'opts': opts}


# (reference line, actual line, a pattern that matches both lines without excusing the difference, the pattern that excuses it)
DECOY_POOL = [
    ('commit 98fe76dc done', 'commit 12ab34cd done', r'\d+', r'[0-9a-f]{8}'),
    ('0xff', '0x1a2b', r'\d+', r'0x[0-9a-f]+'),
    ('took 12ms', 'took 7ms', r'o+', r'\d+ms'),
    ('v1.2 ok', 'v10.31 ok', r'v', r'v\d+\.\d+'),
    ('id: 12', 'id: 345', r'^id', r'\d+'),
    ('2020-01-02 done', '1999-12-31 done', r'\d+', r'\d{4}-\d{2}-\d{2}'),
    ('a1b22', 'a333b4', r'b', r'\d+'),
]


def gen_decoy_case(rng, entry=None):
    """several ignore-patterns of which an early one matches both lines but does not excuse their difference and a
    later one does (every pattern has to be tried: the outcome must not depend on the order of the list)"""
    exp, act, pats = [], [], []
    for _ in range(rng.randint(1, 3)):
        if rng.random() < 0.3:
            l = rng.choice(LINE_POOL[:12])
            exp.append(l)
            act.append(l)
            continue
        e, a, decoy, excuser = rng.choice(DECOY_POOL)
        if rng.random() < 0.5:
            e, a = a, e
        exp.append(e)
        act.append(a)
        for p_ in ((decoy, excuser) if rng.random() < 0.6 else (excuser, decoy)):
            if p_ not in pats:
                pats.append(p_)
    if rng.random() < 0.25 and pats:
        pats.insert(rng.randint(0, len(pats)), rng.choice(PATTERN_POOL))
    if rng.random() < 0.2 and len(pats) > 1:
        pats.pop(rng.randrange(len(pats)))         # (sometimes the excusing pattern is missing: must fail)
    opts = {'ignore_patterns': pats}
    if rng.random() < 0.2:
        opts['rstrip'] = True
    return {'entry': entry or rng.choice(['string', 'string', 'file', 'files']),
            'actual': join_text(rng, act), 'expected': join_text(rng, exp), 'opts': opts}


SHIFT_POOL = [
    # (reference line, actual line, kind): same / excused by the options below / unexcused
    ('abc', 'abc', 'same'), ('foo bar', 'foo bar', 'same'), ('', '', 'same'),
    ('id: 12', 'id: 345', 'excused'), ('took 12ms', 'took 7ms', 'excused'), ('id: 7 took 1ms', 'id: 8 took 22ms', 'excused'),
    ('foo bar', 'foo baz', 'unexcused'), ('abc', 'abd', 'unexcused'), ('xx', 'x', 'unexcused'), ('v1 ok', 'v1 OK', 'unexcused'),
]


def gen_shift_case(rng, entry=None):
    """lines removed on one side only (so that line numbers of the two sides drift apart), followed by excused and
    unexcused pairs of lines: the bookkeeping of which lines were excused is per side"""
    exp, act = [], []
    for _ in range(rng.randint(2, 6)):
        r = rng.random()
        if r < 0.3:
            side = rng.choice(['act', 'act', 'exp', 'both'])
            l = rng.choice(['# comment', '# note 2', 'user bob #'])
            if side in ('act', 'both'):
                act.append(l)
            if side in ('exp', 'both'):
                exp.append(rng.choice(['# comment', '# other']))
        else:
            e, a, _k = rng.choice(SHIFT_POOL)
            if rng.random() < 0.5:
                e, a = a, e
            exp.append(e)
            act.append(a)
    opts = {'remove_lines': ['#']}
    if rng.random() < 0.6:
        opts['ignore_substrings'] = ['id', 'took']
    else:
        opts['ignore_patterns'] = [r'\d+', r'\d+ms']
    if rng.random() < 0.2:
        opts['rstrip'] = True
    return {'entry': entry or rng.choice(['string', 'string', 'file', 'files']),
            'actual': join_text(rng, act), 'expected': join_text(rng, exp), 'opts': opts}


def gen_case(rng, entry=None):
    if rng.random() < 0.12:
        return gen_perm_case(rng, entry)
    if rng.random() < 0.06:
        return gen_shift_case(rng, entry)
    if rng.random() < 0.07:
        return gen_decoy_case(rng, entry)
    exp = gen_lines(rng)
    act = list(exp)
    mode = rng.random()
    nmut = 0 if mode < 0.25 else rng.choice([1, 1, 1, 2, 3])
    for _ in range(nmut):
        r = rng.random()
        if act and r < 0.55:
            i = rng.randrange(len(act))
            act[i] = mutate_line(rng, act[i])
        elif r < 0.7:
            act.insert(rng.randint(0, len(act)), rng.choice(LINE_POOL))
        elif act and r < 0.82:
            del act[rng.randrange(len(act))]
        elif len(act) >= 2:
            i, j = rng.sample(range(len(act)), 2)
            act[i], act[j] = act[j], act[i]
    opts = {}
    if rng.random() < 0.3:
        opts['lstrip'] = True
    if rng.random() < 0.3:
        opts['rstrip'] = True
    if rng.random() < 0.35:
        src = [l for l in exp + act if l.strip()]
        subs = []
        for _ in range(rng.randint(1, 2)):
            if src and rng.random() < 0.7:
                l = rng.choice(src)
                i = rng.randrange(len(l))
                subs.append(l[i:i + rng.randint(1, 4)])
            else:
                subs.append(rng.choice(['user', 'id', 'zzz', 'ms', '#']))
        opts['ignore_substrings'] = subs
    if rng.random() < 0.4:
        opts['ignore_patterns'] = [rng.choice(PATTERN_POOL) for _ in range(rng.randint(1, 2))]
    if rng.random() < 0.3:
        opts['remove_lines'] = [rng.choice(['#', 'user', 'bar', 'x', 'done', '12', ' '])
                                for _ in range(rng.randint(1, 2))]
    if rng.random() < 0.2:
        opts['preprocess'] = rng.choice(['lower', 'drop_first', 'no_digits'])
    if rng.random() < 0.3:
        opts['max_permutation_cases'] = rng.randint(1, 3)
    return {'entry': entry or rng.choice(['string', 'string', 'file', 'files']),
            'actual': join_text(rng, act), 'expected': join_text(rng, exp), 'opts': opts}


# ---------------------------------------------------------------------------

class _Ref(ReferenceTest):
    verbose = False


def read_text(path):
    with open(path, encoding='utf-8') as f:
        return f.read()


def snapshot(root):
    out = {}
    for d, _, files in os.walk(root):
        for fn in files:
            p = os.path.join(d, fn)
            with open(p, 'rb') as f:
                out[os.path.relpath(p, root)] = f.read()
    return out


def kw_of(opts):
    kw = dict(opts)
    if 'preprocess' in kw:
        kw['preprocess'] = PREPROCESS[kw['preprocess']]
    return kw


def run_assert(case):
    """Run the public assertion for the case in a scratch tree.
    Returns dict(passed, message, before, after (snapshots of the scratch tree), root, paths...)"""
    root = tempfile.mkdtemp(prefix='cf_')
    try:
        os.makedirs(os.path.join(root, 'ref'))
        os.makedirs(os.path.join(root, 'out'))
        # the configured temporary directory may be created only after the test object (a fixture, setUp): what counts
        # is where it points when the assertion runs
        late_tmp = case.get('late_tmp', (len(case['actual']) + len(case['expected'])) % 4 == 1)
        if not late_tmp:
            os.makedirs(os.path.join(root, 'tmp'))
        # (the reference may carry a flat-file extension: the names of the temporary files derive from it)
        refpath = os.path.join(root, 'ref', 'ref.csv' if case.get('ref_csv', len(case['expected']) % 3 == 1) else 'ref.txt')
        with open(refpath, 'w', encoding='utf-8', newline='') as f:
            f.write(case['expected'])
        actpath = os.path.join(root, 'out', 'act.txt')
        if case['entry'] != 'string':
            with open(actpath, 'w', encoding='utf-8', newline='') as f:
                f.write(case['actual'])
        priorref = os.path.join(root, 'ref', 'prior.txt')
        with open(priorref, 'w') as f:
            f.write('took 345 ms\n')
        if case['entry'] != 'string' and os.path.getsize(actpath) == os.path.getsize(refpath):
            # same size, same modification time (files unpacked from an archive): still two different files
            for p_ in (actpath, refpath):
                os.utime(p_, (10 ** 9, 10 ** 9))
        before = snapshot(root)
        res = {}

        def assert_fn(ok, msg):
            res['passed'] = bool(ok)
            res['message'] = msg

        by_call = case.get('tmp_by_set_defaults', (len(case['actual']) + 2 * len(case['expected'])) % 5 == 2)
        saved_base = {k: ReferenceTest.__dict__[k] for k in ('tmp_dir', 'verbose', 'print_fn') if k in ReferenceTest.__dict__}
        if by_call:
            # configured through set_defaults, next to another test class configured with another directory
            class R(_Ref):
                pass

            class R2(_Ref):
                pass
            R.set_defaults(tmp_dir=os.path.join(root, 'tmp'))
            os.makedirs(os.path.join(root, 'other'), exist_ok=True)
            R2.set_defaults(tmp_dir=os.path.join(root, 'other'))
        else:
            class R(_Ref):
                tmp_dir = os.path.join(root, 'tmp')
        R.regenerate = {}
        # the environment names another directory for failures: the explicitly configured one takes precedence
        saved_env = os.environ.get('TDDA_FAIL_DIR')
        if case.get('env_fail_dir', len(case['actual']) % 3 == 0):
            os.makedirs(os.path.join(root, 'envfail'), exist_ok=True)
            os.environ['TDDA_FAIL_DIR'] = os.path.join(root, 'envfail')
        r = R(assert_fn)
        os.makedirs(os.path.join(root, 'tmp'), exist_ok=True)
        kw = kw_of(case['opts'])
        if kw.get('ignore_patterns') and case.get('prior_call', len(case['actual']) % 2 == 0):
            # the same test object was used before, with the same list object holding other patterns (a suite that edits
            # one list in place between assertions)
            pl = [r'\d+']
            r.assertStringCorrect('took 12 ms\n', priorref, ignore_patterns=pl)
            pl[:] = kw['ignore_patterns']
            kw['ignore_patterns'] = pl
            res.clear()
        exc = None
        if case.get('late_ref', (len(case['actual']) + len(case['expected'])) % 7 == 3):
            # the same assertion failed once before, when the reference was not there yet (it was then created as the
            # message advises): what is said now is about the files as they are now
            with open(refpath, 'rb') as f_:
                ref_bytes = f_.read()
            os.remove(refpath)
            try:
                if case['entry'] == 'string':
                    r.assertStringCorrect(case['actual'], refpath, **kw)
                elif case['entry'] == 'file':
                    r.assertTextFileCorrect(actpath, refpath, **kw)
                else:
                    r.assertTextFilesCorrect([actpath], [refpath], **kw)
            except Exception:   # noqa
                pass
            with open(refpath, 'wb') as f_:
                f_.write(ref_bytes)
            for fn_ in os.listdir(os.path.join(root, 'tmp')):
                os.remove(os.path.join(root, 'tmp', fn_))
            res.clear()
            before = snapshot(root)
        try:
            if case['entry'] == 'string':
                r.assertStringCorrect(case['actual'], refpath, **kw)
            elif case['entry'] == 'file':
                r.assertTextFileCorrect(actpath, refpath, **kw)
            else:
                r.assertTextFilesCorrect([actpath], [refpath], **kw)
        except Exception as e:   # noqa
            exc = e
        finally:
            if saved_env is None:
                os.environ.pop('TDDA_FAIL_DIR', None)
            else:
                os.environ['TDDA_FAIL_DIR'] = saved_env
            for k, v in saved_base.items():          # (whatever a changed set_defaults did to the base class)
                if ReferenceTest.__dict__.get(k) is not v:
                    setattr(ReferenceTest, k, v)
        after = snapshot(root)
        return {'passed': res.get('passed'), 'message': res.get('message'), 'exc': exc,
                'before': before, 'after': after, 'root': root, 'refpath': refpath, 'actpath': actpath}
    finally:
        shutil.rmtree(root, ignore_errors=True)


def lines_seen_by_code(case):
    """(actual_lines, expected_lines) exactly as check_strings receives them (before preprocess)."""
    exp = _universal(case['expected']).splitlines()
    if case['entry'] == 'string':
        act = case['actual'].splitlines()
    else:
        act = _universal(case['actual']).splitlines()
    return act, exp


def _universal(text):
    """What open(path, encoding=...).read() returns for text written with newline=''."""
    return text.replace('\r\n', '\n').replace('\r', '\n')


def anchored(p):
    return (('' if p.startswith('^') else '^(.*)') + ('(%s)' % p) + ('' if p.endswith('$') else '(.*)$'))


def pat_table(patterns, lines, cap=4000):
    """Closure of re.match results over the lines and the group(1)/group(last) pieces."""
    # the anchored, compiled patterns come from the code under test (compile_patterns), so the
    # model stays parametric in how patterns are anchored
    cps = FilesComparison(verbose=False).compile_patterns(patterns or [])
    seen = set()
    todo = list(dict.fromkeys(lines))
    rows = []
    while todo and len(seen) < cap:
        l = todo.pop()
        if l in seen:
            continue
        seen.add(l)
        for i, cp in enumerate(cps):
            m = cp.match(l)
            if m:
                g1, gl = m.group(1), m.group(cp.groups)
                if g1 is None or gl is None:
                    raise ValueError('optional group unmatched')
                rows.append([i, l, cp.groups, g1, gl, cp.pattern.startswith('(')])
                if cp.groups != 1:
                    for x in (g1, gl):
                        if x not in seen:
                            todo.append(x)
    return rows


def model_op(case):
    o = case['opts']
    act, exp = lines_seen_by_code(case)
    pp = PREPROCESS[o.get('preprocess')]
    if pp:
        exp, act = pp(exp), pp(act)
    pats = o.get('ignore_patterns') or []
    # lines on which patterns may be evaluated: any line of either side, as compared (after the stripping requested)
    def norm(l):
        if o.get('lstrip'):
            l = l.lstrip()
        if o.get('rstrip'):
            l = l.rstrip()
        return l
    table = pat_table(pats, [norm(l) for l in act + exp] + act + exp)
    return {'op': 'c04.check_strings',
            'opts': {'lstrip': bool(o.get('lstrip')), 'rstrip': bool(o.get('rstrip')),
                     'ignore_substrings': o.get('ignore_substrings') or [],
                     'npats': len(pats), 'remove_lines': o.get('remove_lines') or [],
                     'max_permutation_cases': o.get('max_permutation_cases', 0),
                     'preprocess': bool(pp), 'actual_path': case['entry'] != 'string',
                     'create_temporaries': True},
            'pat': table, 'actual': act, 'expected': exp,
            # the actual content as given to the assertion (what the raw actual file must hold)
            'raw_actual': case['actual'] if isinstance(case['actual'], str) else '\n'.join(case['actual']),
            'guide_nl': _universal(case['expected']).endswith('\n')}


FE_CONTENT = re.compile(r'^(\d+) lines? (?:is|are) different, starting at line (\d+)$')
FE_NUMBER = re.compile(r'^(File|String)s have different numbers of lines, differences start at (.*)$')
HEADER = re.compile(r'^\*\*\*\n.*?\*\*\*\n\n', re.S)


def impl_output(case):
    """Run the FilesComparison entry point directly and canonicalise like the model's answer."""
    root = tempfile.mkdtemp(prefix='cfi_')
    try:
        tmp = os.path.join(root, 'tmp')
        os.makedirs(tmp)
        refpath = os.path.join(root, 'ref.txt')
        with open(refpath, 'w', encoding='utf-8', newline='') as f:
            f.write(case['expected'])
        actpath = os.path.join(root, 'act.txt')
        fc = FilesComparison(verbose=False, tmp_dir=tmp)
        kw = kw_of(case['opts'])
        try:
            if case['entry'] == 'string':
                failures, msgs = fc.check_string_against_file(case['actual'], refpath, actual_path=None, **kw)
            else:
                with open(actpath, 'w', encoding='utf-8', newline='') as f:
                    f.write(case['actual'])
                if case['entry'] == 'file':
                    failures, msgs = fc.check_file(actpath, refpath, **kw)
                else:
                    failures, msgs = fc.check_files([actpath], [refpath], **kw)
        except RecursionError:
            return {'exc': 'RecursionError'}
        fe = None
        for l in msgs.lines:
            m = FE_CONTENT.match(l)
            if m:
                fe = ['content', int(m.group(1)), int(m.group(2))]
            m = FE_NUMBER.match(l)
            if m:
                w = m.group(2)
                if w.startswith('line '):
                    w = int(w[5:])
                elif w.startswith('end of actual'):
                    w = 'end of actual'
                fe = ['number', m.group(1) == 'File', w]
        recon = None
        if msgs.reconstructions:
            rc = msgs.reconstructions[-1]
            recon = [list(rc.diff_actual), list(rc.diff_expected)]

        def rd(name, strip_header=False):
            p = os.path.join(tmp, name)
            if not os.path.exists(p):
                return None
            with open(p, encoding='utf-8', newline='') as f:
                t = f.read()
            if strip_header:
                t = HEADER.sub('', t, count=1)
            return t
        common = 'ref.txt' if case['entry'] == 'string' else 'act.txt'
        return {'failures': failures, 'first_error': fe, 'recon': recon,
                'raw_actual': rd('actual-raw-' + common),
                'diff_actual': rd('actual-' + common, True),
                'diff_expected': rd('expected-' + common, True)}
    finally:
        shutil.rmtree(root, ignore_errors=True)


# ---------------------------------------------------------------------------
# Independent statement of the comparison rule (C04), from the property text and the
# documentation of ignore_patterns.

def doc_pat_equiv(a, e, patterns):
    """a and e differ only in parts each matched (in full) by one ignore-pattern; text outside
    those parts is identical."""
    cps = []
    for p in patterns:
        start = p.startswith('^')
        end = p.endswith('$') and not p.endswith('\\$')
        cps.append((re.compile(p), start, end))
    memo = {}

    def eq(i, j):
        # a[i:] vs e[j:]
        key = (i, j)
        if key in memo:
            return memo[key]
        memo[key] = False   # guards cycles
        if a[i:] == e[j:]:
            memo[key] = True
            return True
        k = 0
        while True:
            # common text a[i:i+k] == e[j:j+k], then a pattern part on both sides
            for cp, start, end in cps:
                if start and (i + k != 0 or j + k != 0):
                    continue
                for m in range(0, len(a) - i - k + 1):
                    x = a[i + k:i + k + m]
                    if not _full(cp, a, i + k, i + k + m):
                        continue
                    for n in range(0, len(e) - j - k + 1):
                        if m == 0 and n == 0:
                            continue
                        if not _full(cp, e, j + k, j + k + n):
                            continue
                        if end and (i + k + m != len(a) or j + k + n != len(e)):
                            continue
                        if eq(i + k + m, j + k + n):
                            memo[key] = True
                            return True
            if i + k < len(a) and j + k < len(e) and a[i + k] == e[j + k]:
                k += 1
            else:
                break
        return False
    return eq(0, 0)


def _full(cp, s, lo, hi):
    """pattern matches exactly s[lo:hi] in the context of the whole line (anchors see the line)."""
    m = cp.match(s, lo, hi) if False else None
    # use a region-anchored fullmatch on the whole string so that ^ / $ and lookarounds see context
    try:
        m = cp.fullmatch(s, lo, hi)
    except Exception:
        return False
    return m is not None


def spec_agree(case, drop_trailing_empty=False, perm_raw=False):
    o = case['opts']
    act, exp = lines_seen_by_code(case)
    pp = PREPROCESS[o.get('preprocess')]
    if pp:
        exp, act = pp(exp), pp(act)
    if drop_trailing_empty:
        if act and act[-1] == '':
            act = act[:-1]
        if exp and exp[-1] == '':
            exp = exp[:-1]
    rem = o.get('remove_lines') or []
    act = [l for l in act if not any(r in l for r in rem)]
    exp = [l for l in exp if not any(r in l for r in rem)]
    if len(act) != len(exp):
        return False

    def norm(s):
        if o.get('lstrip') and o.get('rstrip'):
            return s.strip()
        if o.get('lstrip'):
            return s.lstrip()
        if o.get('rstrip'):
            return s.rstrip()
        return s
    subs = o.get('ignore_substrings') or []
    pats = o.get('ignore_patterns') or []
    bad = []
    for a, e in zip(act, exp):
        if norm(a) == norm(e):
            continue
        if any(s in norm(e) for s in subs):     # (the reference line as compared: after the stripping requested)
            continue
        if pats and doc_pat_equiv(norm(a), norm(e), pats):
            continue
        bad.append((a, e))
    if not bad:
        return True
    mpc = o.get('max_permutation_cases', 0)
    pn = (lambda x: x) if perm_raw else norm
    if len(bad) <= mpc and sorted(pn(a) for a, _ in bad) == sorted(pn(e) for _, e in bad):
        return True
    return False
