"""Correspondence for the exclusion rule of gentest (C12): the real check_for_specific_references /
update_exclusions_with_specifics run on a bare TestGenerator object (no command is run) whose machine / user / time
attributes are set by the case, against the Lean model, which is given the answers of the real date detectors."""
import datetime as dt
import os
import shutil
import tempfile

import core

core.setup_repo_path()
from tdda.referencetest import gentest as G  # noqa: E402
from tdda.referencetest.utils import FileType, protected_readlines  # noqa: E402

NOW = dt.datetime(2021, 6, 15, 10, 30, 0)
ENVS = [
    {'host': 'vm7', 'ip': '10.0.0.7', 'cwd': '/w/proj', 'homedir': '/home/ann', 'user': 'ann', 'tmpvar': False},
    {'host': 'build-01.example.org', 'ip': None, 'cwd': '/home/bob/work', 'homedir': '/home/bob', 'user': 'bob', 'tmpvar': True},
    {'host': 'h', 'ip': '127.0.0.1', 'cwd': '/srv/data', 'homedir': '/root', 'user': 'root', 'tmpvar': False},
    {'host': 'node3', 'ip': '', 'cwd': '/home/eve/x', 'homedir': '/home/eve', 'user': 'carol', 'tmpvar': True},
]
LINE_POOL = [
    'hello world', 'host {HOST} up', 'connect to {IP} ok', 'user {USER} logged in', 'home {HOME}/notes', 'cwd: {CWD}/f.txt',
    '{USER}@{HOST}:{CWD}$', 'tmp {TMP}/x.out', 'written on 2021-06-15', 'run at 2021-06-15 10:29:58 ok', 'started 15/06/2021',
    '14 Jun 2021 23:00:00 warm-up', 'Jun 16 2021', '2019-03-04 12:00:01 processed seventeen records', '1999-12-31 23:59:59 rollover ok',
    '04/03/2009 08:15:00 job done', 'version 1.2.0 build 15', '31/02/2020', 'from 2021-06-14 to 2021-06-16', 'at 10:30:00',
    '2021-06-15 and 2021-06-15 10:30:01', 'date 2021-06-17', '{HOME}', '{IP}:8080 2021-06-15T10:30:00', '', 'id=7 id=12',
    '16/06/21 12:00', '6/15/2021 9:05:00 AM', '15 June 2021', '{HOST}', 'the user is {USER}',
]


def gen_case(rng):
    n = rng.choice([1, 2, 3, 4, 6, 9])
    return {'kind': 'excl', 'env': rng.randrange(len(ENVS)), 'iterations': rng.choice([1, 2, 2, 3]),
            'lines': [rng.choice(LINE_POOL) for _ in range(n)]}


def _subst(line, env):
    return (line.replace('{HOST}', env['host']).replace('{IP}', env['ip'] or '0.0.0.0').replace('{USER}', env['user'])
            .replace('{HOME}', env['homedir']).replace('{CWD}', env['cwd']).replace('{TMP}', G.TMPDIR))


def stub(env):
    g = object.__new__(G.TestGenerator)
    g.host, g.ip_address, g.cwd, g.homedir, g.user = env['host'], env['ip'], env['cwd'], env['homedir'], env['user']
    g.user_in_home = g.user in g.homedir
    g.cwd_in_home = g.cwd.startswith(g.homedir)
    g.tmp_dir_shell_var = 'TMPDIR' if env['tmpvar'] else None
    g.tmpdir = G.TMPDIR
    g.tmpdir_used = False
    g.start_time = g.stop_time = NOW
    g.set_min_max_time()
    g.exclusions, g.warnings, g.verbose = {}, [], False
    return g


def run(case):
    """(implementation result, model op)"""
    env = ENVS[case['env']]
    g = stub(env)
    g.iterations = case['iterations']
    d = tempfile.mkdtemp(prefix='gx_')
    try:
        path = os.path.join(d, 'out.txt')
        text = ''.join(_subst(l, env) + '\n' for l in case['lines'])
        with open(path, 'w', encoding='utf-8') as f:
            f.write(text)
        ft = FileType(path)
        lines = protected_readlines(path, ft) or []
        infos = [{'text': l, 'plausible_date': g.is_date_like(l, plausible=True) is not None,
                  'dt_like': G.is_datetime_like(l) is not None,
                  'dates': list(g.find_specific_dates_in_line(l)), 'dts': list(g.find_specific_datetimes_in_line(l))}
                 for l in lines]
        op = {'op': 'gt.exclusions', 'iterations': case['iterations'], 'lines': infos,
              'env': {'host': g.host, 'ip': g.ip_address, 'cwd': g.cwd, 'homedir': g.homedir, 'user': g.user,
                      'tmpdir': G.TMPDIR if env['tmpvar'] else None, 'user_in_home': g.user_in_home,
                      'cwd_in_home': g.cwd_in_home}}
        try:
            if g.iterations < 2:
                impl = {'substrings': [], 'dates_to_rex': False}     # generate_exclusions returns at once
            else:
                specifics = g.check_for_specific_references(path, ft)
                g.update_exclusions_with_specifics('out.txt', (specifics, [], []))
                rexes, removals, substrings = g.exclusions['out.txt']
                impl = {'substrings': list(substrings), 'dates_to_rex': bool(rexes), 'removals': list(removals)}
                if not impl['removals']:
                    impl.pop('removals')
        except Exception as e:   # noqa
            impl = {'exc': type(e).__name__}
        return impl, op
    finally:
        shutil.rmtree(d, ignore_errors=True)


def canon_model(o):
    if 'ok' not in o:
        return {'exc': o.get('exc')}
    return {'substrings': o['ok']['substrings'], 'dates_to_rex': bool(o['ok']['dates_to_rex'])}
