#!/venv/bin/python
"""Entry point: vcheck.py <Cxx> [--tier quick|thorough] [--seed N] [--replay file]"""
import argparse
import importlib
import os
import sys
import warnings

sys.path.insert(0, os.path.dirname(os.path.abspath(__file__)))
warnings.filterwarnings('ignore')

import core  # noqa: E402


def main():
    ap = argparse.ArgumentParser()
    ap.add_argument('pid')
    ap.add_argument('--tier', default=os.environ.get('VERIF_TIER', 'quick'))
    ap.add_argument('--seed', type=int, default=int(os.environ.get('VERIF_SEED', '0')))
    ap.add_argument('--replay')
    a = ap.parse_args()
    core.setup_repo_path()
    mod = importlib.import_module('props.%s' % a.pid.lower())
    try:
        rc = core.run_check(mod.PROP, a.tier, a.seed, a.replay)
    except Exception:
        import traceback
        traceback.print_exc()
        rc = 2
    sys.stdout.flush()
    os._exit(rc)


if __name__ == '__main__':
    main()
