"""Shared machinery for the gentest properties (C11, C12): build a working directory with a deterministic
shell command, run `tdda gentest` on it as a real process, run the generated script, change the command's
behaviour and run the script again."""
import hashlib
import json
import os
import re
import shutil
import subprocess
import sys

import core

PY = sys.executable

TEXT_POOL = [
    'hello world', 'Total: 42 items', 'version 1.2.0 build 15', '31/02/2020', '2020-13-45', '99/99/9999', '12:34:56',
    'it\'s "quoted"', 'back\\slash \\n \\t', 'tab\there', 'regex .*+?[]()^$|{} chars', 'ünïcödé 日本語 ٣', '',
    'trailing spaces   ', '    leading', '%s %d %(x)s', '"""triple"""', "'''triple'''", '#comment', 'a' * 120,
    'path /usr/local/bin/thing', 'user@example.com', '00:00', '1/2/3', '15 Jan 1999', 'Feb 30 2021', '30 Feb 2021',
    '2021-02-30 10:00:00', 'id=7 id=12', '-' * 20, '\\', 'line with \x0c formfeed', 'NULL', 'None', 'True',
    # tokens specific to this machine / user / directory (filled in when the working directory is built)
    'host {HOST} up', 'connect to {IP} ok', 'user {USER} logged in', 'home {HOME}/notes', 'cwd: {CWD}/f.txt', '{USER}@{HOST}:{CWD}$',
    '{IP}', '{HOME}',
    # today's date (a deterministic command may well print it): a handful of them, and more than the generator lists one by one
    'run of {TODAY}', '{TODAY} 08:00:00 start', 'from {TODAY} to {TODAY}',
    '{TODAY} a\n{TODAY} b\n{TODAY} c\n{TODAY} d\n{TODAY} e\n{TODAY} f',
    # log lines stamped long ago: nothing about them is specific to the time of generation
    '2019-03-04 12:00:01 processed seventeen records', '1999-12-31 23:59:59 rollover ok', '04/03/2009 08:15:00 job done',
    '15 Jan 1999 10:00:00 start', 'finished at 2001-09-09 01:46:40 exactly',
    # backslash sequences that are malformed escapes in a Python string literal (the command text is quoted into the script)
    'C:\\Users\\me\\Notes', 'cost\\xchange', '\\Notes and \\u12', '\\0 \\777 \\8', 'ends with backslash\\',
]


OLD_STAMPED = ['2019-03-04 12:00:01 processed seventeen records', '1999-12-31 23:59:59 rollover ok', '04/03/2009 08:15:00 job done',
               '15 Jan 1999 10:00:00 start', 'finished at 2001-09-09 01:46:40 exactly']


_TOKENS = None


def subst(text, d):
    """fill the machine-specific placeholders of a generated text in (cases stay machine-independent)"""
    global _TOKENS
    if '{' not in text:
        return text
    if _TOKENS is None:
        import getpass
        import socket
        host = socket.gethostname()
        try:
            ip = socket.gethostbyname(host)
        except Exception:   # noqa
            ip = '127.0.0.1'
        import datetime as _dt
        _TOKENS = {'{HOST}': host, '{IP}': ip, '{USER}': getpass.getuser(), '{HOME}': os.path.expanduser('~'),
                   '{TODAY}': _dt.date.today().isoformat()}
    for k, v in _TOKENS.items():
        text = text.replace(k, v)
    return text.replace('{CWD}', os.path.abspath(d))


def sh_quote(s):
    return "'" + s.replace("'", "'\"'\"'") + "'"


def gen_text(rng, maxlines=5):
    n = rng.choice([0, 1, 1, 2, 3, maxlines])
    lines = [rng.choice(TEXT_POOL) for _ in range(n)]
    text = '\n'.join(lines)
    if lines and rng.random() < 0.85:
        text += '\n'
    return text


def gen_case(rng):
    files = []
    for j in range(rng.choice([0, 0, 1, 1, 2, 3])):
        kind = rng.choice(['text', 'text', 'binary'])
        bom_latin1 = kind == 'text' and rng.random() < 0.1
        how = rng.choice(['explicit', 'explicit', 'dir', 'glob', 'sibling', 'glob2', 'tmp'] if rng.random() < 0.3 else
                         ['explicit', 'explicit', 'dir', 'glob', 'sibling'])
        ext = {'text': rng.choice(['.txt', '.csv', '.log', '.json', '']), 'binary': rng.choice(['.bin', '.dat', '.png'])}[kind]
        name = 'out%d%s' % (j, ext)
        if rng.random() < 0.2:
            # names with capitals, names that differ from a reserved test name only in case
            name = rng.choice(['Out%d%s' % (j, ext), 'OUT%d%s' % (j, ext.upper()), 'Stdout', 'STDERR', 'Exit_Code',
                               'No_Exception', 'Summary%d%s' % (j, ext), 'stdout%s' % ext,
                               # dot files are outputs like any other
                               '.manifest%d' % j, '.out%d%s' % (j, ext), '.hidden%d' % j])
        if kind == 'text':
            content = gen_text(rng)
            if rng.random() < 0.1:
                content = content.replace('\n', '\r\n')
            if rng.random() < 0.08:
                # a long report: more than 8 KiB of ASCII rows, the only non-ASCII text near the end
                content = ''.join('row %04d,%s,ok\n' % (i, 'x' * 10) for i in range(rng.choice([400, 700]))) + \
                          rng.choice(['total: 12 \u20ac\n', 'na\u00efve caf\u00e9\n', '\u65e5\u672c\n'])
        else:
            content = bytes(rng.randrange(256) for _ in range(rng.choice([0, 1, 8, 64, 4096, 8192]))).hex()
        fl = {'name': name, 'kind': kind, 'how': how, 'content': content}
        if bom_latin1 and name.endswith(('.txt', '.csv', '.log')):
            # a text file in a legacy encoding behind a UTF-8 byte-order mark (bytes given in hex)
            fl['raw_hex'] = (b'\xef\xbb\xbf' + 'caf\u00e9 au lait\nprix: 12 \u00a3\nna\u00efve\n'.encode('latin-1')).hex()
            if rng.random() < 0.5:
                # or text in an encoding the detector names (UTF-16 with its byte-order mark, Shift-JIS)
                fl['raw_hex'] = rng.choice(['caf\u00e9 \u65e5\u672c\nline 2\nline 3\n'.encode('utf-16'),
                                            ('\u65e5\u672c\u8a9e\u306e\u30c6\u30ad\u30b9\u30c8\u3067\u3059\u3002\n' * 6).encode('cp932')]).hex()
                # (UTF-16 announces itself with its byte-order mark: also with a single run)
                fl['raw_any_runs'] = fl['raw_hex'].startswith(('fffe', 'feff'))
        if any(target_of(f) == target_of(fl) for f in files):
            fl['name'] = 'n%d_%s' % (j, name)       # (two outputs of one command are two files)
        files.append(fl)
    if files and rng.random() < 0.2:
        # a second output with the same base name in another directory (reference copies collide)
        twin = dict(files[0], how='dir2', content=files[0]['content'] + ('x\n' if files[0]['kind'] == 'text' else '00'))
        files[0]['how'] = 'dir'
        files.append(twin)
    if files and rng.random() < 0.15:
        # a second output in the same directory whose name differs only in the case of its letters
        f0 = files[rng.randrange(len(files))]
        if f0['how'] != 'dir2' and f0['name'].swapcase() != f0['name'] and not any(f['name'] == f0['name'].swapcase() for f in files):
            files.append(dict(f0, name=rng.choice([f0['name'].swapcase(), f0['name'].capitalize(), f0['name'].upper()]),
                              content=f0['content'] + ('y\n' if f0['kind'] == 'text' else '01')))
            if files[-1]['name'] == f0['name']:
                files.pop()
    if len(files) >= 2 and rng.random() < 0.3:
        # two wildcard patterns on one command line, each matching an output
        files[0]['how'], files[1]['how'] = 'glob', 'glob2'
    seen = set()
    files = [f for f in files if not (target_of(f) in seen or seen.add(target_of(f)))]     # one file per path
    flags = []
    if rng.random() < 0.15:
        flags.append('--no-stdout')
    if rng.random() < 0.15:
        flags.append('--no-stderr')
    if rng.random() < 0.15:
        flags.append(rng.choice(['--no-clobber', '-C']))
    if rng.random() < 0.12:
        flags.append(rng.choice(['--relative-paths', '-r']))
    status = rng.choice([0, 0, 0, 1, 2, 7])
    if status != 0:
        flags.append('--non-zero-exit')
    script = rng.choice(['test_cmd.py', 'test_cmd.py', 'test_cmd', 'cmd.py', 'cmd', 'test_my_cmd2.py', 'ABS:test_abs.py',
                         'test_with-dash.py', 'test_with.dot.py', 'testcmd.py', 'test__cmd.py', '_cmd.py', 'test___cmd.py',
                         'test_cmd_.py'])
    return {'stdout': gen_text(rng), 'stderr': gen_text(rng, 2) if rng.random() < 0.5 else '', 'files': files,
            'status': status, 'iterations': rng.choice([1, 2, 2, 3]), 'flags': flags, 'script': script,
            'existing': rng.random() < 0.5, 'cmd_style': rng.choice(['cat', 'cat', 'printf']),
            'preexisting': rng.random() < 0.25, 'preserve_times': rng.random() < 0.3,
            'old_bystanders': rng.random() < 0.3,
            # another generated test (test_cmd.py with its reference directory ref/cmd) is already there
            'prior_test': rng.random() < 0.25, 'echo_tmpdir': rng.choice([False] * 7 + [True, 'bare']), 'empty_glob': rng.random() < 0.1,
            'wizard': rng.choice([None] * 5 + ['tmpdir', 'no-tmpdir', 'no-tmpdir'])}


def wizard_of(case):
    """'tmpdir' / 'no-tmpdir' when the case goes through gentest's question-and-answer interface (only requests it can
    express: one-line commands, no option without a question, no output under $TMPDIR when that is not to be watched)"""
    w = case.get('wizard')
    if not w or case.get('cmd_style') != 'cat' or '\n' in case.get('script', ''):
        return None
    if any(f not in ('--no-stdout', '--no-stderr', '--non-zero-exit') for f in case['flags']):
        return None
    if any(fl['how'] == 'tmp' for fl in case['files']) or case.get('echo_tmpdir'):
        return None
    return w


def echoes_tmpdir(case):
    """whether the command also prints a line holding $TMPDIR: only with two or more runs (a single run generates no
    exclusions at all, by design) and only when the rest of the stream is printable text: a control character such as a
    form feed makes utils.FileType call the stream binary (chardet's confidence drops under the threshold), a binary
    stream gets no exclusions, and the line then differs on the next run - outside the property's quantifier
    ("any printable/unicode text")"""
    if not case.get('echo_tmpdir') or case.get('iterations', 2) < 2:
        return False
    if case['stdout'] and not case['stdout'].endswith('\n'):
        return False            # (the line would join the last line of the stream, which then holds $TMPDIR and is excluded)
    return not any(ord(c) < 32 and c not in '\n\t' for c in case['stdout'])


def target_of(fl, base='w'):
    """path of the output relative to the working directory (whose base name is `base`)"""
    if fl['how'] == 'sibling':
        return '../%s-out/%s' % (base, fl['name'])
    if fl['how'] == 'dir':
        return 'outdir/' + fl['name']
    if fl['how'] == 'dir2':
        return 'outdir2/' + fl['name']
    if fl['how'] == 'glob':
        return 'g_' + fl['name']
    if fl['how'] == 'glob2':
        return 'h_' + fl['name']            # (a second wildcard pattern on the same command line)
    if fl['how'] == 'tmp':
        return '$TMPDIR/t_' + fl['name']    # (written under the directory the generator hands the command as $TMPDIR)
    return fl['name']


def src_of(fl, index):
    """the file the command copies to produce output number `index`"""
    return 'src%d_%s' % (index, fl['name'])


def build_dir(case, d):
    """the command's inputs (in_*), pre-existing bystander files, and the command line"""
    os.makedirs(d, exist_ok=True)
    with open(os.path.join(d, 'in_out'), 'w', encoding='utf-8', newline='') as f:
        f.write(subst(case['stdout'], d))
    with open(os.path.join(d, 'in_err'), 'w', encoding='utf-8', newline='') as f:
        f.write(subst(case['stderr'], d))
    with open(os.path.join(d, 'in_status'), 'w') as f:
        f.write(str(case['status']))
    parts = []
    if case.get('cmd_style') == 'printf' and '\x00' not in case['stdout']:
        parts.append('printf %s ' + sh_quote(subst(case['stdout'], d)))
    else:
        parts.append('cat in_out')
    if echoes_tmpdir(case):
        # (the generator points TMPDIR at a directory of its own; named with a path below it, or bare)
        parts.append('echo "scratch area: $TMPDIR"' if case.get('echo_tmpdir') == 'bare' else 'echo "scratch area: $TMPDIR/x"')
    parts.append('cat in_err >&2')
    refs = []
    for fi, fl in enumerate(case['files']):
        src = src_of(fl, fi)
        mode = 'wb'
        data = subst(fl['content'], d).encode('utf-8') if fl['kind'] == 'text' else bytes.fromhex(fl['content'])
        if fl.get('raw_hex') and (case.get('iterations', 2) >= 2 or fl.get('raw_any_runs')):
            data = bytes.fromhex(fl['raw_hex'])
        with open(os.path.join(d, src), mode) as f:
            f.write(data)
        target = target_of(fl, os.path.basename(d))
        if fl['how'] == 'dir':
            os.makedirs(os.path.join(d, 'outdir'), exist_ok=True)
            if 'outdir' not in refs:
                refs.append('outdir')
        elif fl['how'] == 'dir2':
            os.makedirs(os.path.join(d, 'outdir2'), exist_ok=True)
            if 'outdir2' not in refs:
                refs.append('outdir2')
        elif fl['how'] == 'glob':
            if 'g_*' not in refs:
                refs.append('g_*')
        elif fl['how'] == 'glob2':
            if 'h_*' not in refs:
                refs.append('h_*')
        elif fl['how'] == 'tmp':
            pass                      # (found by the generator itself: everything under its $TMPDIR is an output)
        elif fl['how'] == 'sibling':
            # an output outside the working directory, in a directory whose name extends the working directory's
            os.makedirs(os.path.join(d, os.path.dirname(target)), exist_ok=True)
            refs.append(target if fl['name'].startswith('out0') else os.path.abspath(os.path.join(d, target)))
        else:
            refs.append(target)
        fl['target'] = target
        cp = 'cp -p' if case.get('preserve_times') else 'cp'
        parts.append('if test -f %s; then %s %s %s; fi' % (src, cp, src, '"%s"' % target if fl['how'] == 'tmp' else target))
        if case.get('preexisting') and fl['how'] != 'tmp':
            # the command was tried by hand before: its outputs are already there when the generator looks
            import shutil as _sh
            _sh.copy2(os.path.join(d, src), os.path.join(d, target))
    if case.get('empty_glob'):
        refs.append('nomatch_*.log')          # a pattern that matches nothing this time (warned about, otherwise ignored)
    parts.append('exit $(cat in_status)')
    if case.get('old_bystanders'):
        # files the command never touches, inside the directories given to the generator, whose modification time is
        # older than their change time (copied with their times kept, extracted from an archive, chmod-ed later)
        for sub in sorted({os.path.dirname(target_of(fl, os.path.basename(d))) for fl in case['files'] if fl['how'] in ('dir', 'dir2')}):
            for name, data in (('README.txt', b'read me\n'), ('legend.csv', b'k,v\n1,2\n')):
                pth = os.path.join(d, sub, name)
                if not os.path.exists(pth):
                    with open(pth, 'wb') as f:
                        f.write(data)
                    old = 1500000000 + len(name)
                    os.utime(pth, (old, old))
    if case.get('prior_test') and script_paths(case, d)[1] != 'test_cmd.py' and script_paths(case, d)[2] != os.path.join('ref', 'cmd'):
        # (a script name that maps to the same reference directory, like testcmd.py, replaces it by design)
        env = dict(os.environ, PYTHONPATH=core.REPO, PYTHONIOENCODING='utf-8')
        env.pop('TMPDIR', None)
        subprocess.run([PY, '-m', 'tdda.referencetest.gentest', 'echo prior output', 'test_cmd.py'], cwd=d, capture_output=True,
                       text=True, env=env, timeout=120)
    if case.get('existing'):
        with open(os.path.join(d, 'bystander.txt'), 'w') as f:
            f.write('I was here before\n')
        os.makedirs(os.path.join(d, 'keep'), exist_ok=True)
        with open(os.path.join(d, 'keep', 'data.bin'), 'wb') as f:
            f.write(b'\x00\x01\x02')
    return '; '.join(parts), refs


def snapshot(d, skip=()):
    out = {}
    for root, dirs, files in os.walk(d):
        for n in files:
            p = os.path.join(root, n)
            rel = os.path.relpath(p, d)
            if any(rel == s or rel.startswith(s + os.sep) for s in skip):
                continue
            with open(p, 'rb') as f:
                out[rel] = hashlib.sha1(f.read()).hexdigest()
    return out


def script_paths(case, d):
    """where gentest will put the script and the reference directory for the requested script name"""
    raw = case['script']
    if raw.startswith('ABS:'):
        raw = os.path.join(d, raw[4:])
    name = os.path.basename(raw)
    if not name.endswith('.py'):
        name += '.py'
    if not name.startswith('test'):
        name = 'test_' + name
    sub = name[4:-3]
    sub = sub[1:] if sub.startswith('_') else sub
    return raw, name, os.path.join('ref', sub)


def run_gentest(case, d, timeout=120):
    command, refs = build_dir(case, d)
    raw, script_name, refdir = script_paths(case, d)
    before = snapshot(d)
    env = dict(os.environ, PYTHONPATH=core.REPO, PYTHONIOENCODING='utf-8')
    env.pop('TMPDIR', None)
    argv = [PY, '-m', 'tdda.referencetest.gentest'] + case['flags'] + ['-n', str(case['iterations']), command, raw] + refs
    stdin = None
    if wizard_of(case):
        # the same request through the question-and-answer interface (no arguments): command, script, files under the
        # working directory (no), files under $TMPDIR (as the case says), the other files, the three checks, overwrite, runs
        yn = lambda b: 'y' if b else 'n'
        stdin = '\n'.join([command, raw, 'n', yn(wizard_of(case) == 'tmpdir')] + refs +
                          ['', yn('--no-stdout' not in case['flags']), yn('--no-stderr' not in case['flags']),
                           yn('--non-zero-exit' not in case['flags']), 'y', str(case['iterations'])]) + '\n'
        argv = [PY, '-m', 'tdda.referencetest.gentest']
    try:
        p = subprocess.run(argv, cwd=d, capture_output=True, text=True, env=env, timeout=timeout, input=stdin)
        rc, out, err = p.returncode, p.stdout, p.stderr
    except subprocess.TimeoutExpired:
        rc, out, err = 'timeout', '', ''
    after = snapshot(d)
    return {'rc': rc, 'out': out, 'err': err, 'command': command, 'refs': refs, 'script': script_name, 'refdir': refdir,
            'before': before, 'after': after}


RESULT_RE = re.compile(r'^(FAIL|ERROR): (\w+)', re.M)


def run_script(d, script_name, timeout=120):
    env = dict(os.environ, PYTHONPATH=core.REPO, PYTHONIOENCODING='utf-8')
    env.pop('TMPDIR', None)
    env.pop('TMPDIR_SET_BY_GENTEST', None)
    try:
        p = subprocess.run([PY, script_name], cwd=d, capture_output=True, text=True, env=env, timeout=timeout)
    except subprocess.TimeoutExpired:
        return {'rc': 'timeout', 'failed': [], 'errors': [], 'text': ''}
    text = p.stderr + p.stdout
    failed = sorted({m.group(2) for m in RESULT_RE.finditer(text) if m.group(1) == 'FAIL'})
    errors = sorted({m.group(2) for m in RESULT_RE.finditer(text) if m.group(1) == 'ERROR'})
    ran = re.search(r'^Ran (\d+) test', text, re.M)
    return {'rc': p.returncode, 'failed': failed, 'errors': errors, 'text': text[-1500:], 'ran': int(ran.group(1)) if ran else None}


def compiles(path):
    try:
        with open(path, encoding='utf-8') as f:
            compile(f.read(), path, 'exec')
        return None
    except SyntaxError as e:
        return '%s (line %s)' % (e.msg, e.lineno)
    except Exception as e:   # noqa
        return '%s: %s' % (type(e).__name__, e)


def test_name_for(target):
    return 'test_' + ''.join(c if c.isalnum() else '_' for c in os.path.basename(target))
