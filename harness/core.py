"""
Common machinery for every property check (see DESIGN.md section 3).

A check is: translator (T1) -> lake build of the property's Lean modules (P)
-> axiom / forbidden-token audit -> correspondence model-vs-implementation (T2)
-> property oracle on the real code (S) -> verdict (V) -> evidence file.

Nothing here is property specific; per-property code lives in props/cXX.py and
subclasses `Prop`.
"""
import fcntl
import hashlib
import json
import os
import random
import re
import subprocess
import sys
import time
import traceback

VERIF = os.path.dirname(os.path.dirname(os.path.abspath(__file__)))
REPO = os.environ.get('TDDA_REPO', '/repo')
LEAN_DIR = os.path.join(VERIF, 'lean')
EVIDENCE_DIR = os.path.join(VERIF, 'evidence')
REPLAY_DIR = os.path.join(VERIF, 'replays')
KNOWN_FINDINGS = os.path.join(VERIF, 'known_findings.json')
DRIVER_BIN = os.path.join(LEAN_DIR, '.lake', 'build', 'bin', 'tddadriver')
LOCK = os.path.join(LEAN_DIR, '.lake-verif.lock')

ALLOWED_AXIOMS = {'propext', 'Classical.choice', 'Quot.sound'}
FORBIDDEN = re.compile(r'\bsorry\b|\badmit\b|^\s*axiom\s|native_decide|bv_decide'
                       r'|implemented_by|\bunsafe\s|maxHeartbeats\s+0\b', re.M)

TRUSTED_BASE_COMMON = [
    'Lean 4.33.0 kernel (thorough tier: re-checked with leanchecker)',
    'axioms per theorem audited on every run: subset of {propext, Classical.choice, Quot.sound}; no native_decide, bv_decide, sorry, admit or added axioms',
    'the reading of the property as the theorem statements in lean/TddaVerif/Props',
    'the correspondence harness (Python generators, canonicalisers, Lean driver): differential testing on the generated inputs only',
]


def setup_repo_path():
    if REPO not in sys.path:
        sys.path.insert(0, REPO)
    os.environ.setdefault('TDDA_VERIF', '1')


def sh(cmd, cwd=None, timeout=3600, input=None, env=None):
    p = subprocess.run(cmd, cwd=cwd, shell=isinstance(cmd, str), input=input,
                       stdout=subprocess.PIPE, stderr=subprocess.STDOUT,
                       timeout=timeout, env=env,
                       text=isinstance(input, str) or input is None)
    return p.returncode, p.stdout


class Lock:
    def __enter__(self):
        os.makedirs(os.path.dirname(LOCK), exist_ok=True)
        self.f = open(LOCK, 'w')
        fcntl.flock(self.f, fcntl.LOCK_EX)
        return self

    def __exit__(self, *a):
        fcntl.flock(self.f, fcntl.LOCK_UN)
        self.f.close()


def strip_comments(src):
    """Remove Lean block and line comments (good enough for the audit grep)."""
    out = []
    i, n, depth = 0, len(src), 0
    while i < n:
        if src.startswith('/-', i):
            depth += 1
            i += 2
        elif depth and src.startswith('-/', i):
            depth -= 1
            i += 2
        elif depth:
            if src[i] == '\n':
                out.append('\n')
            i += 1
        elif src.startswith('--', i):
            while i < n and src[i] != '\n':
                i += 1
        else:
            out.append(src[i])
            i += 1
    return ''.join(out)


def write_if_changed(path, text):
    os.makedirs(os.path.dirname(path), exist_ok=True)
    try:
        with open(path, encoding='utf-8') as f:
            if f.read() == text:
                return False
    except FileNotFoundError:
        pass
    with open(path, 'w', encoding='utf-8') as f:
        f.write(text)
    return True


# ---------------------------------------------------------------------------
# Lean literal helpers for the translator

def lean_chars(s):
    """A Python str as a Lean `List Char` literal that reduces under decide."""
    if s == '':
        return '([] : List Char)'
    def one(c):
        if 32 <= ord(c) < 127 and c not in "'\\":
            return "'%s'" % c
        return 'Char.ofNat %d' % ord(c)
    return '[' + ', '.join(one(c) for c in s) + ']'


def lean_str(s):
    out = ['"']
    for c in s:
        o = ord(c)
        if c == '"':
            out.append('\\"')
        elif c == '\\':
            out.append('\\\\')
        elif c == '\n':
            out.append('\\n')
        elif c == '\t':
            out.append('\\t')
        elif 32 <= o < 127:
            out.append(c)
        else:
            out.append('\\u{%x}' % o)
    out.append('"')
    return ''.join(out)


# ---------------------------------------------------------------------------

class Driver:
    """Runs the compiled Lean model driver on a batch of JSON ops."""

    def __init__(self):
        self.calls = 0
        self.ops = 0

    def run(self, ops, timeout=1800):
        if not ops:
            return []
        if not os.path.exists(DRIVER_BIN):
            raise RuntimeError('driver binary missing: %s' % DRIVER_BIN)
        data = '\n'.join(json.dumps(o) for o in ops) + '\n'
        p = subprocess.run([DRIVER_BIN], input=data, stdout=subprocess.PIPE,
                           stderr=subprocess.PIPE, text=True, timeout=timeout)
        if p.returncode != 0:
            raise RuntimeError('driver failed rc=%s: %s' % (p.returncode, p.stderr[-2000:]))
        lines = p.stdout.split('\n')
        if lines and lines[-1] == '':
            lines.pop()
        if len(lines) != len(ops):
            raise RuntimeError('driver answered %d lines for %d ops; stderr=%s'
                               % (len(lines), len(ops), p.stderr[-2000:]))
        self.calls += 1
        self.ops += len(ops)
        return [json.loads(l) for l in lines]


class Failure:
    """A property failure on the real implementation (found by an oracle)."""

    def __init__(self, clause, case, detail='', key=None):
        self.clause = clause
        self.case = case
        self.detail = detail
        self.key = key or clause

    def to_json(self):
        return {'clause': self.clause, 'key': self.key, 'detail': self.detail,
                'case': self.case}


class Disagreement:
    def __init__(self, op, case, impl, model):
        self.op = op
        self.case = case
        self.impl = impl
        self.model = model

    def to_json(self):
        return {'op': self.op, 'case': self.case, 'impl': self.impl,
                'model': self.model}


class Prop:
    """Base class of a property check.  Subclasses override the hooks."""
    pid = None
    title = ''
    lean_modules = []        # lake targets that must build (Props + Tie modules)
    theorems = []            # fully-qualified theorem names to audit
    lean_sources = []        # files (relative to lean/) scanned by the forbidden-token audit
    trusted_base = []        # property-specific additions
    assumptions = []
    level = 'proof'
    quick_n = 200
    thorough_n = 5000
    search_n = 3000          # intensified oracle search when the proof/tie is broken
    rule = ''

    def __init__(self, tier, seed):
        self.tier = tier
        self.seed = seed
        self.rng = random.Random(seed * 1000003 + int(hashlib.sha1(self.pid.encode()).hexdigest()[:6], 16))
        self.driver = Driver()
        self.stats = {}
        self.samples = []
        self.n = int(os.environ.get('VERIF_N', self.thorough_n if tier == 'thorough' else self.quick_n))

    # --- hooks -----------------------------------------------------------
    def translate(self):
        """T1: regenerate Generated/*.lean from /repo.  Returns list of notes."""
        return []

    def corpus(self):
        """Minimised past failures / fixed regression cases, run first."""
        return []

    def gen_case(self, rng, i):
        raise NotImplementedError

    def model_ops(self, case):
        """JSON ops for the Lean driver for this case (list)."""
        return []

    def impl_outputs(self, case):
        """Canonical outputs of the real implementation, one per op."""
        return []

    def canon_model(self, case, outs):
        """Canonicalise the driver outputs (default: the 'ok' field)."""
        return [o.get('ok', o) for o in outs]

    def oracle(self, case):
        """Evaluate the property on the real code. Returns list of Failure."""
        return []

    def nontrivial_key(self, case):
        """Hashable key if the case is non-trivial, else None."""
        return json.dumps(case, sort_keys=True, default=str)

    def shrink(self, case, still_fails):
        return case

    def revive(self, case):
        """a case read back from JSON -> the form the generator produces (default: unchanged)"""
        return case

    def prepare(self, cases):
        """Called with a batch of cases before they are evaluated (e.g. to run expensive steps in parallel)."""
        return None

    def finish(self, cases):
        """Whole-run oracle (properties about histories of calls). Returns list of Failure."""
        return []

    def count(self, k, n=1):
        self.stats[k] = self.stats.get(k, 0) + n


def load_known():
    try:
        with open(KNOWN_FINDINGS) as f:
            d = json.load(f)
    except FileNotFoundError:
        return []
    return d.get('findings', [])


CORPUS_DIR = os.path.join(VERIF, 'corpus')


def load_corpus(pid):
    """the committed regression corpus of a property: inputs on which an earlier version of the code, or a seeded
    change, broke the property (one JSON object per line: {"case": ..., "from": ...}); they run before the generated cases"""
    out = []
    try:
        with open(os.path.join(CORPUS_DIR, pid + '.jsonl')) as f:
            for line in f:
                line = line.strip()
                if line:
                    out.append(json.loads(line))
    except FileNotFoundError:
        pass
    return out


def _one_per_key(failures, skip, limit=5):
    """one further failing input for each other distinct failure key (for the replay file)"""
    out, seen = [], {skip}
    for f in failures:
        if f.key in seen:
            continue
        seen.add(f.key)
        out.append({'key': f.key, 'clause': f.clause, 'detail': f.detail, 'case': f.case})
        if len(out) >= limit:
            break
    return out


def lake_build(targets):
    with Lock():
        rc, out = sh(['lake', 'build'] + targets, cwd=LEAN_DIR, timeout=3000)
    return rc, out


def audit(prop):
    """Forbidden-token grep + #print axioms for every listed theorem."""
    problems = []
    scanned = 0
    # every project file the property's modules import, transitively
    todo = list(prop.lean_modules)
    seen = set()
    while todo:
        mod = todo.pop()
        if mod in seen or not mod.startswith('TddaVerif'):
            continue
        seen.add(mod)
        p = os.path.join(LEAN_DIR, *mod.split('.')) + '.lean'
        if not os.path.exists(p):
            problems.append('module %s has no source file' % mod)
            continue
        raw = open(p, encoding='utf-8').read()
        todo += re.findall(r'^import\s+(\S+)', raw, re.M)
        src = strip_comments(raw)
        scanned += 1
        m = FORBIDDEN.search(src)
        if m:
            problems.append('forbidden token %r in %s' % (m.group(0).strip(), os.path.relpath(p, LEAN_DIR)))
    axioms = {}
    if prop.theorems:
        mods = sorted(set(prop.lean_modules))
        src = ''.join('import %s\n' % m for m in mods)
        src += ''.join('#print axioms %s\n' % t for t in prop.theorems)
        path = os.path.join(LEAN_DIR, '.lake', 'audit_%s.lean' % prop.pid)
        os.makedirs(os.path.dirname(path), exist_ok=True)
        with open(path, 'w') as f:
            f.write(src)
        rc, out = sh(['lake', 'env', 'lean', path], cwd=LEAN_DIR, timeout=1200)
        # parse: "'name' depends on axioms: [a, b]" or "'name' does not depend on any axioms"
        text = out.replace('\n', ' ')
        for t in prop.theorems:
            m = re.search(r"'%s' depends on axioms: \[([^\]]*)\]" % re.escape(t), text)
            if m:
                axs = [a.strip() for a in m.group(1).split(',') if a.strip()]
                axioms[t] = axs
                bad = [a for a in axs if a not in ALLOWED_AXIOMS]
                if bad:
                    problems.append('theorem %s depends on disallowed axioms %s' % (t, bad))
            elif re.search(r"'%s' does not depend on any axioms" % re.escape(t), text):
                axioms[t] = []
            else:
                problems.append('theorem %s not found / audit failed' % t)
        if rc != 0 and not problems:
            problems.append('audit run failed: ' + out[-500:])
    return problems, axioms, scanned


def run_check(prop_cls, tier, seed, replay=None):
    t0 = time.time()
    setup_repo_path()
    random.seed(seed)          # the implementation may draw from the global PRNG (rexpy sampling)
    prop = prop_cls(tier, seed)
    pid = prop.pid
    os.makedirs(EVIDENCE_DIR, exist_ok=True)
    os.makedirs(REPLAY_DIR, exist_ok=True)
    broken = []          # proof/tie breakages (strings)
    notes = []

    # T1 translator
    try:
        notes += prop.translate() or []
    except Exception as e:
        broken.append('translator failed: %r' % (e,))
        traceback.print_exc()

    # P: build
    targets = list(prop.lean_modules) + ['tddadriver']
    rc, out = lake_build(targets)
    build_ok = rc == 0
    if not build_ok:
        # find first error lines
        errs = [l for l in out.split('\n') if 'error' in l][:6]
        broken.append('lake build failed: ' + ' | '.join(errs))
        # try to at least build the driver so that correspondence can still run
        rc2, out2 = lake_build(['tddadriver'])
        if rc2 != 0:
            notes.append('driver could not be built')
    # audit
    problems, axioms, scanned = ([], {}, 0)
    if build_ok:
        problems, axioms, scanned = audit(prop)
        broken += problems
    obligations = len(prop.theorems)
    discharged = len([t for t in prop.theorems if t in axioms and
                      all(a in ALLOWED_AXIOMS for a in axioms[t])]) if build_ok else 0

    # T2 + S
    known = [k for k in load_known() if k.get('property') == pid]
    known_keys = {k['key']: k for k in known if k.get('status') == 'known'}
    failures = []
    disagreements = []
    seen_nontrivial = set()
    evaluations = 0
    traces = 0
    harness_errors = []

    if replay:
        with open(replay) as f:
            rj = json.load(f)
        cases = [rj['case']] if 'case' in rj else [x['case'] for x in rj.get('failures', [])]
        cases = [prop.revive(c) for c in cases]
    else:
        cases = list(prop.corpus())
        for ent in load_corpus(pid):
            try:
                cases.append(prop.revive(ent['case']))
            except Exception as e:   # noqa
                notes.append('corpus entry from %s not usable (%r)' % (ent.get('from'), e))
        n_corpus = len(cases)
        for i in range(prop.n):
            cases.append(prop.gen_case(prop.rng, i))

    def run_batch(cases, do_model=True):
        nonlocal evaluations, traces
        all_ops, spans = [], []
        impl_all = []
        try:
            prop.prepare(cases)
        except Exception as e:
            harness_errors.append('prepare crashed: %r' % (e,))
            traceback.print_exc()
        for c in cases:
            evaluations += 1
            k = prop.nontrivial_key(c)
            if k is not None:
                seen_nontrivial.add(k if len(k) < 200 else hashlib.sha1(k.encode()).hexdigest())
            try:
                fs = prop.oracle(c)
            except Exception as e:
                harness_errors.append('oracle crashed: %r on %s' % (e, json.dumps(c, default=str)[:300]))
                traceback.print_exc()
                fs = []
            failures.extend(fs)
            if do_model:
                try:
                    ops = prop.model_ops(c)
                    if ops:
                        impl = prop.impl_outputs(c)
                        assert len(impl) == len(ops), 'impl/ops length mismatch'
                    else:
                        impl = []
                except Exception as e:
                    harness_errors.append('impl side crashed: %r on %s' % (e, json.dumps(c, default=str)[:300]))
                    traceback.print_exc()
                    ops, impl = [], []
                spans.append((len(all_ops), len(ops)))
                all_ops.extend(ops)
                impl_all.append(impl)
        if do_model and all_ops:
            try:
                outs = prop.driver.run(all_ops)
            except Exception as e:
                harness_errors.append('driver: %r' % (e,))
                return
            for c, (s, l), impl in zip(cases, spans, impl_all):
                if not l:
                    continue
                mo = prop.canon_model(c, outs[s:s + l])
                traces += 1
                for j in range(l):
                    if mo[j] != impl[j]:
                        disagreements.append(Disagreement(all_ops[s + j].get('op'), c, impl[j], mo[j]))
                        break

    have_driver = os.path.exists(DRIVER_BIN)
    if not have_driver:
        broken.append('driver binary unavailable: correspondence not run')
    # the recorded inputs of the listed findings go first, so that every listed finding is exercised on every run
    if not replay:
        for k in known_keys.values():
            inp = k.get('input')
            if not isinstance(inp, dict):
                continue
            try:
                inp = prop.revive(inp)
                prop.prepare([inp])
                fs = prop.oracle(inp)
                evaluations += 1
                failures.extend(fs)
                if not any(f.key == k['key'] for f in fs):
                    notes.append('listed finding %s: its recorded input no longer fails' % k['key'])
            except Exception as e:   # noqa  (a recorded input in an older case format)
                notes.append('listed finding %s: recorded input not usable (%r)' % (k['key'], e))
    run_batch(cases, do_model=have_driver)
    try:
        failures.extend(prop.finish(cases) or [])
    except Exception as e:
        harness_errors.append('finish crashed: %r' % (e,))
        traceback.print_exc()
    if len(prop.samples) < 3:
        for c in cases[:3]:
            prop.samples.append(c)

    if disagreements:
        d0 = disagreements[0]
        broken.append('correspondence: model and implementation disagree on op %s (%d cases)'
                      % (d0.op, len(disagreements)))

    # intensified search when proof/tie is broken and no failing input yet
    new_failures = [f for f in failures if f.key not in known_keys]
    if broken and not new_failures and not replay:
        # first the disagreeing inputs were already put through the oracle above;
        # now widen the search
        extra = [prop.gen_case(prop.rng, prop.n + i) for i in range(prop.search_n)]
        run_batch(extra, do_model=False)
        new_failures = [f for f in failures if f.key not in known_keys]
        notes.append('intensified search: %d extra cases' % len(extra))

    wall = time.time() - t0
    if os.environ.get('VERIF_DEBUG'):
        seenk = {}
        for f in failures:
            seenk.setdefault(f.key, []).append(f)
        for k, fs in seenk.items():
            print('DEBUG key=%s n=%d clause=%s detail=%s\n      case=%s' % (k, len(fs), fs[0].clause, fs[0].detail, json.dumps(fs[0].case, default=str)[:600]))
        for d in disagreements[:5]:
            print('DEBUG disagreement', json.dumps(d.to_json(), default=str)[:1500])
    # ---- verdict
    status = 0
    lines = []
    reported_known = set()
    for f in failures:
        if f.key in known_keys and f.key not in reported_known:
            reported_known.add(f.key)
            lines.append('KNOWN-FINDING: property=%s %s' % (pid, known_keys[f.key].get('what_fails', f.key)))
    replay_path = None
    if new_failures:
        f0 = new_failures[0]
        try:
            f0case = prop.shrink(f0.case, lambda c: any(x.key == f0.key for x in prop.oracle(c)))
            f0 = Failure(f0.clause, f0case, f0.detail, f0.key)
        except Exception:
            pass
        replay_path = os.path.join(REPLAY_DIR, '%s_%s_%d.json' % (pid, tier, seed))
        with open(replay_path, 'w') as fh:
            json.dump({'property': pid, 'kind': 'failing-input',
                       'clause': f0.clause, 'key': f0.key, 'detail': f0.detail,
                       'case': f0.case,
                       'distinct_new_keys': sorted({f.key for f in new_failures}),
                       'failures': _one_per_key(new_failures, f0.key),
                       'first_disagreement': disagreements[0].to_json() if disagreements else None,
                       'broken': broken}, fh, indent=1, default=str)
        lines.append('VIOLATION property=%s replay=%s' % (pid, os.path.relpath(replay_path, VERIF)))
        status = 1
    elif broken:
        replay_path = os.path.join(REPLAY_DIR, '%s_%s_%d.json' % (pid, tier, seed))
        with open(replay_path, 'w') as fh:
            json.dump({'property': pid, 'kind': 'proof-or-correspondence-broken',
                       'broken': broken,
                       'first_disagreement': disagreements[0].to_json() if disagreements else None,
                       'build_log_tail': out[-3000:] if not build_ok else None},
                      fh, indent=1, default=str)
        lines.append('VIOLATION property=%s replay=%s no-failing-input-found' % (pid, os.path.relpath(replay_path, VERIF)))
        status = 1
    if harness_errors:
        for h in harness_errors[:5]:
            print('HARNESS-ERROR:', h)
        if status == 0:
            status = 2

    checker_cmd = ('cd lean && lake build %s tddadriver && lake env lean .lake/audit_%s.lean'
                   % (' '.join(prop.lean_modules), pid))
    if tier == 'thorough' and build_ok and status == 0 and prop.lean_modules and not os.environ.get('VERIF_NO_LEANCHECKER'):
        rc, lo = sh(['lake', 'env', 'leanchecker'] + list(prop.lean_modules), cwd=LEAN_DIR, timeout=3000)
        notes.append('leanchecker rc=%d' % rc)
        checker_cmd += ' && lake env leanchecker ' + ' '.join(prop.lean_modules)
        if rc != 0:
            print('leanchecker failed:', lo[-1500:])
            status = 2

    ev = {
        'property_id': pid, 'tier': tier, 'seed': seed, 'level': prop.level,
        'coverage': {
            'obligations': max(obligations, 1), 'discharged': discharged,
            'checker_cmd': checker_cmd,
            'trusted_base': TRUSTED_BASE_COMMON + list(prop.trusted_base),
            'theorems': {t: axioms.get(t) for t in prop.theorems},
            'lean_files_scanned_for_forbidden_tokens': scanned,
            'evaluations': evaluations,
            'distinct_nontrivial': len(seen_nontrivial),
            'rule': prop.rule,
            'samples': prop.samples[:5],
            'traces_validated_against_impl': traces,
            'model_ops_run': prop.driver.ops,
            'disagreements': len(disagreements),
            'oracle_failures_total': len(failures),
            'oracle_failures_known': len(failures) - len(new_failures),
            'known_finding_keys_hit': sorted(reported_known),
            'regression_corpus_cases': n_corpus if not replay else 0,
            'distribution': prop.stats,
            'notes': notes, 'proof_or_tie_broken': broken,
        },
        'assumptions': list(prop.assumptions),
        'wall_s': round(wall, 2),
        'violations': 1 if status == 1 else 0,
    }
    with open(os.path.join(EVIDENCE_DIR, '%s.json' % pid), 'w') as fh:
        json.dump(ev, fh, indent=1, default=str)
    for l in lines:
        print(l)
    print('%s %s seed=%d: theorems %d/%d, cases %d (distinct non-trivial %d), traces %d, disagreements %d, '
          'oracle failures %d (known %d), broken=%s, %.1fs -> exit %d'
          % (pid, tier, seed, discharged, obligations, evaluations, len(seen_nontrivial), traces,
             len(disagreements), len(failures), len(failures) - len(new_failures), bool(broken), wall, status))
    if broken:
        for b in broken:
            print('  BROKEN:', b)
    return status
