"""C03 - every example string is matched by one of the regular expressions rexpy returns."""
import json
import re

import core
import rxcommon as rx
import translate

core.setup_repo_path()


def classify(s, dialect):
    """what kind of characters an unmatched example contains (for the finding key)"""
    kinds = set()
    for c in s:
        if c.isdigit() and not c.isdecimal():
            kinds.add('digit-like-not-decimal')
        elif c.isdecimal() and not ('0' <= c <= '9'):
            kinds.add('non-ascii-decimal-digit')
    return kinds


class C03(core.Prop):
    pid = 'C03'
    lean_modules = ['TddaVerif.Props.C03']
    theorems = ['TddaVerif.Props.C03.' + t for t in [
        'matchCap_sound', 'matchCap_complete', 'coarse_sound', 'batch_extract_sound', 'extract_sound',
        'extract_sampled_sound', 'extract_sampled_terminates', 'extract_sampled_eq_batch',
        'tie_constants', 'tie_general_alnums', 'extract_sound_every_size', 'extract_sampled_sound_every_size', 'extract_sampled_eq_batch_every_size']]
    quick_n = 1500
    thorough_n = 40000
    rule = ('cases: example multisets of 1..14 strings from structured families (ids, phones, urls, e-mails, names, hex, '
            'padded words) and an alphabet of all ASCII printables, control characters, regex metacharacters, Unicode '
            'whitespace, non-ASCII letters, letter-numbers, non-ASCII decimal digits and digit-like characters; as list / '
            'frequency dict / pandas column; x option subsets {tag, strip, remove_empties, variableLengthFrags, '
            'extra_letters, dialect perl/portable/grep} x Size settings small enough to force sampling x seeds. '
            'non-trivial = >= 2 distinct examples; distinct by content')
    trusted_base = [
        'the Lean model Model/Rexpy.lean + RexpyRender.lean is a hand translation of the batch path of rexpy.Extractor '
        '(clean, coarse classification, run-length encoding, merging, alignment, refinement, pruning, rendering) and of the '
        'sampling loop (Model/RexpySampled.lean: first sample, extract / find failures / extend / again, pruning), with '
        'random.sample as a parameter; tied by running both on every generated case - for cases that sample, the model replays '
        'the results of the random.sample calls recorded from the very run it is compared with',
        'PickOK: random.sample returns elements of the list it is given, and at least one when asked for at least one of a '
        'non-empty list',
        'Consistent T: the character table handed to the model classifies \\w / \\d / \\s as CPython re does (built by calling re on each character)',
        'the theorems are about the pattern AST and the Matches relation of Props/C03Spec.lean; that the rendered text '
        'denotes the same language under CPython re is checked by the oracle on every case, not proved',
        'harness/translate.py regenerates Generated/Rexpy.lean (constants, category tables, class order) from the imported module',
        'the CPython re engine decides matching (oracle: re.fullmatch under UNICODE|DOTALL); Unicode beyond the generated alphabet is not covered',
    ]

    def translate(self):
        return translate.regenerate(['Rexpy'])

    def corpus(self):
        return [
            {'examples': ['^-', 'a'], 'opts': {}, 'size': None, 'seed': None, 'form': 'list'},
            {'examples': ['a²', 'b³'], 'opts': {'dialect': 'perl'}, 'size': None, 'seed': None, 'form': 'list'},
            {'examples': ['٣', '٤'], 'opts': {'dialect': 'portable'}, 'size': None, 'seed': None, 'form': 'list'},
            {'examples': ['ab', 'cd', 'ef', 'gh\n', 'ij', 'kl'], 'opts': {},
             'size': {'do_all': 2, 'do_all_exceptions': 1, 'max_sampled_attempts': 1, 'n_per_length': 1}, 'seed': 1, 'form': 'list'},
            {'examples': ['ab', 'cd', '12', '1-2', 'x_y', 'QQ', 'zz9'], 'opts': {},
             'size': {'do_all': 2, 'do_all_exceptions': 1, 'max_sampled_attempts': 1}, 'seed': 3, 'form': 'list'},
        ]

    def gen_case(self, rng, i):
        return {'examples': rx.gen_examples(rng), 'opts': rx.gen_opts(rng), 'size': rx.gen_size(rng),
                'seed': rng.choice([None, None, 0, 1, 7, 12345]), 'form': rng.choice(['list', 'list', 'dict', 'dict0', 'series'])}

    # correspondence: the Lean pipeline against rexpy.extract, for cases where no sampling happens
    def _nosampling(self, case):
        if not case['size']:
            return True
        kept = set(rx.kept_examples(case['examples'], case['opts']))
        return len(kept) <= case['size']['do_all']

    def _recorded(self, case):
        key = json.dumps(case, sort_keys=True)
        if getattr(self, '_rk', None) != key:
            self._rk = key
            self._rv = rx.run_extract_recorded(case['examples'], case['opts'], case['size'], case['seed'], case['form'])
        return self._rv

    def model_ops(self, case):
        if not rx.modelled(case['examples'], case['opts']):
            return []
        form = case['form'] if case['form'] in ('dict', 'dict0') else 'list'
        if rx.nosampling(case['examples'], case['opts'], case['size']):
            return [rx.model_extract_op(case['examples'], case['opts'], form, case['size'])]
        # with sampling: the loop model, replaying what random.sample returned in the run it is compared with
        res, exc, picks = self._recorded(case)
        if exc is not None or any(not isinstance(x, list) for p in picks for x in p):
            return []
        self.count('sampled_traces')
        return [rx.model_sampled_op(case['examples'], case['opts'], case['size'], picks, form)]

    def impl_outputs(self, case):
        if rx.nosampling(case['examples'], case['opts'], case['size']):
            res, exc, _, _ = rx.run_extract(case['examples'], case['opts'], case['size'], case['seed'], case['form'])
        else:
            res, exc, _ = self._recorded(case)
        if exc is not None:
            return [{'exc': type(exc).__name__}]
        return [{'rex': list(res)}]

    def canon_model(self, case, outs):
        return [{'rex': o['ok']['rex']} if 'ok' in o else {'exc': o.get('exc')} for o in outs]

    def nontrivial_key(self, case):
        for k in case['opts']:
            self.count('opt_' + k)
        if case['size']:
            self.count('sized')
        return json.dumps(case, sort_keys=True) if len(set(case['examples'])) >= 2 else None

    def _cured_by_ascii_digits(self, case, s):
        def sub(x):
            return None if x is None else ''.join('5' if (c.isdecimal() and not '0' <= c <= '9') else c for c in x)
        ex2 = [sub(x) for x in case['examples']]
        res, exc, _, _ = rx.run_extract(ex2, case['opts'], case['size'], case['seed'], case['form'])
        if exc is not None:
            return False
        try:
            return any(rx.full_match(r, sub(s)) for r in res)
        except re.error:
            return False

    def oracle(self, case):
        F = []
        fail = lambda clause, detail, key=None: F.append(core.Failure(clause, case, detail, key or clause))
        dialect = case['opts'].get('dialect', 'portable')
        sampled = bool(case['size']) and len(set(rx.kept_examples(case['examples'], case['opts']))) > case['size']['do_all']
        if dialect != 'perl' and any(isinstance(s_, str) and not s_.isascii() for s_ in case['examples']):
            # a call in another dialect on the same examples comes first (what one dialect learnt about a character must not
            # leak into another)
            rx.run_extract(case['examples'], dict(case['opts'], dialect='perl'), case['size'], case['seed'], case['form'])
        res, exc, _, _ = rx.run_extract(case['examples'], case['opts'], case['size'], case['seed'], case['form'])
        if exc is not None:
            fail('raises', '%s: %s' % (type(exc).__name__, str(exc)[:150]), 'raises:' + type(exc).__name__)
            return F
        for s in case['examples']:
            if s is None:
                continue
            t = s.strip() if case['opts'].get('strip') else s
            if case['opts'].get('remove_empties') and t == '':
                continue
            try:
                ok = any(rx.full_match(r, s) for r in res)
            except re.error as e:
                fail('invalid-regex', '%r: %s' % (res, e))
                return F
            if not ok:
                kinds = classify(t, dialect)
                if 'non-ascii-decimal-digit' in kinds and dialect in ('portable', 'grep') and self._cured_by_ascii_digits(case, s):
                    # the cause is established, not guessed: with every non-ASCII decimal digit replaced by an ASCII one
                    # the same example is matched
                    key = 'unmatched:non-ascii-decimal-digit:%s' % dialect
                elif 'digit-like-not-decimal' in kinds:
                    key = 'unmatched:digit-like-not-decimal'
                elif 'non-ascii-decimal-digit' in kinds and dialect in ('portable', 'grep'):
                    key = 'unmatched:non-ascii-decimal-digit:%s:not-cured-by-ascii' % dialect
                elif set(t) & set('^-') and re.search(r'\[\^', ''.join(res)):
                    key = 'unmatched:negated-bracket'
                elif s.endswith('\n') and any(re.match(re.compile(r, rx.FLAGS), s) for r in res):
                    key = 'unmatched:final-newline-only-by-dollar'
                elif sampled:
                    key = 'unmatched:under-sampling'
                else:
                    key = 'unmatched'
                fail('unmatched', '%r is matched by none of %r' % (s, res), key)
        return F


PROP = C03
