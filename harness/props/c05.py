"""C05 - DataFrame comparison passes exactly when the checked structure and values agree."""
import contextlib
import copy
import io
import json
import math
import os
import shutil
import tempfile

import core
import cxcommon as cx

core.setup_repo_path()
import numpy as np  # noqa: E402
import pandas as pd  # noqa: E402
from tdda.referencetest.referencetest import ReferenceTest  # noqa: E402
from tdda.referencetest.checkpandas import PandasComparison, types_match, loosen_type  # noqa: E402

FAMS = ['int64', 'Int64', 'float64', 'float32', 'bool', 'boolean', 'object-str', 'string', 'str', 'category',
        'datetime64[ns]', 'datetime64[s]', 'object-bool', 'uint8', 'Float64', 'datetime64[ns, UTC]', 'datetime64[us, UTC]']
LEVELS = [None, 'strict', 'medium', 'permissive']
DTYPE_NAMES = ['datetime64[us, UTC]', 'datetime64[ms, Europe/London]', 'int64', 'int8', 'uint8', 'Int64', 'UInt8', 'float64', 'float32', 'Float64', 'bool', 'boolean', 'object',
               'string', 'str', 'category', 'datetime64[ns]', 'datetime64[s]', 'datetime64[ns, UTC]', 'timedelta64[ns]']


def quiet():
    return contextlib.redirect_stdout(io.StringIO())


def gen_frame(rng):
    n = rng.choice([0, 1, 2, 3, 4, 6])
    ncol = rng.randint(1, 4)
    cols = []
    for j in range(ncol):
        fam = rng.choice(FAMS)
        cols.append({'name': 'c%d' % j, 'fam': fam, 'cells': cx.gen_cells(rng, fam, n)})
    for c in cols:
        c['cells'] = [None if (isinstance(x, float) and math.isinf(x)) else x for x in c['cells']]
    return {'nrows': n, 'cols': cols}


def with_index(df, how):
    """row labels other than 0..n-1 (a filtered / concatenated / re-labelled frame): rows correspond by position"""
    n = len(df)
    if not how or n == 0:
        return df
    df = df.copy()
    if how == 'offset':
        df.index = range(5, 5 + n)
    elif how == 'reversed':
        df.index = range(n - 1, -1, -1)
    elif how == 'strings':
        df.index = ['r%d' % i for i in range(n)]
    elif how == 'duplicates':
        df.index = [i // 2 for i in range(n)]
    return df


def mutate(rng, fr, prec=None, force=None):
    """one mutation of a copy; returns (frame, kind, detail)"""
    g = copy.deepcopy(fr)
    kinds = ['none', 'value', 'value-small', 'value-within', 'value-beyond', 'name', 'dtype', 'position', 'rows',
             'extra', 'drop', 'row-filtered-out', 'null-in-condition-column', 'na-text']
    kind = force or rng.choice(kinds)
    if kind == 'na-text':
        # the reference holds a text that merely looks like a missing value (NA, n/a, null ...: not one of the documented
        # null spellings), the actual frame a real null in that cell
        cands = [(ci, ri) for ci, c in enumerate(g['cols']) if c['fam'] in ('object-str', 'string', 'str')
                 for ri in range(len(c['cells']))]
        if not cands:
            return g, 'none', None
        ci, ri = rng.choice(cands)
        fr['cols'][ci]['cells'][ri] = rng.choice(['NA', 'n/a', 'null', 'None', 'N/A', '<NA>', 'nan'])
        g['cols'][ci]['cells'][ri] = None
        return g, kind, (g['cols'][ci]['name'], ri)
    if kind in ('value-within', 'value-beyond'):
        # the reference cell is put on the grid of the precision, the actual one 0.2 / 0.7 grid steps above it
        p = 6 if prec is None else prec
        cands = [(ci, ri) for ci, c in enumerate(g['cols']) if c['fam'] in ('float64', 'Float64')
                 for ri, v in enumerate(c['cells']) if v is not None]
        if not cands:
            return g, 'none', None
        ci, ri = rng.choice(cands)
        k = rng.randint(-50, 50)
        base = k / 10 ** p
        fr['cols'][ci]['cells'][ri] = base
        g['cols'][ci]['cells'][ri] = base + (0.2 if kind == 'value-within' else 0.7) / 10 ** p
        return g, kind, (g['cols'][ci]['name'], ri)
    if kind == 'none':
        return g, kind, None
    if kind in ('value', 'value-small'):
        cands = [(ci, ri) for ci, c in enumerate(g['cols']) for ri, v in enumerate(c['cells'])]
        if not cands:
            return g, 'none', None
        ci, ri = rng.choice(cands)
        c = g['cols'][ci]
        v = c['cells'][ri]
        t = cx.FAMILIES[c['fam']]
        if kind == 'value-small':
            if t != 'real' or v is None or c['fam'] == 'float32':
                return g, 'none', None         # (a float32 cell cannot hold v + 1e-9: the frames would be identical)
            c['cells'][ri] = v + 1e-9          # below any tested precision
            return g, kind, (c['name'], ri)
        if v is None:
            c['cells'][ri] = {'int': 1, 'real': 1.5, 'bool': True, 'string': 'zz', 'other': 'zz',
                              'date': cx.DATE_POOL[0]}[t] if c['fam'] in cx.NULLABLE else v
            if c['cells'][ri] is None:
                return g, 'none', None
        elif t == 'int':
            c['cells'][ri] = (v + 1) if c['fam'] not in ('uint8', 'int8') else (v + 1) % 100
        elif t == 'real':
            c['cells'][ri] = v + 1.0
            if c['fam'] == 'float32':
                # the change must survive the column's precision (1e10 + 1 is 1e10 in float32)
                c['cells'][ri] = float(np.float32(v + max(1.0, abs(v) * 0.5)))
                if float(np.float32(c['cells'][ri])) == float(np.float32(v)):
                    return g, 'none', None
        elif t == 'bool':
            c['cells'][ri] = not v
        elif t in ('string', 'other'):
            c['cells'][ri] = v + 'x'
        else:
            import datetime as dt
            c['cells'][ri] = v + dt.timedelta(seconds=1)
        if c['cells'][ri] == v:
            return g, 'none', None
        return g, kind, (c['name'], ri)
    if kind in ('row-filtered-out', 'null-in-condition-column'):
        # (meant for comparisons with condition = first column not null)
        c0 = g['cols'][0]
        if c0['fam'] not in cx.NULLABLE or c0['fam'] in ('category', 'category-unused'):
            return g, 'none', None
        if kind == 'row-filtered-out':
            # an extra actual row that the condition removes again: the frames agree after filtering
            for c in g['cols']:
                c['cells'] = c['cells'] + [None if c is c0 else (c['cells'][-1] if c['cells'] else None)]
            if g['nrows'] and any(c['cells'][-1] is None and c['fam'] not in cx.NULLABLE for c in g['cols']):
                return copy.deepcopy(fr), 'none', None
            if g['nrows'] == 0 and any(c['fam'] not in cx.NULLABLE for c in g['cols']):
                return copy.deepcopy(fr), 'none', None
            g['nrows'] += 1
            return g, kind, None
        nn = [i for i, v in enumerate(c0['cells']) if v is not None]
        if not nn:
            return g, 'none', None
        c0['cells'][rng.choice(nn)] = None      # one row fewer survives the condition on the actual side
        return g, kind, None
    if kind == 'name':
        c = rng.choice(g['cols'])
        old = c['name']
        c['name'] = old + '_renamed'
        return g, kind, old
    if kind == 'dtype':
        c = rng.choice(g['cols'])
        alt = {'int64': 'float64', 'Int64': 'int64', 'float64': 'Float64', 'float32': 'float32', 'bool': 'boolean',
               'boolean': 'bool', 'object-str': 'string', 'string': 'object-str', 'str': 'object-str',
               'category': 'object-str', 'datetime64[ns]': 'datetime64[s]', 'datetime64[s]': 'datetime64[ns]',
               'object-bool': 'bool', 'uint8': 'int64', 'Float64': 'float64',
               'datetime64[ns, UTC]': 'datetime64[us, UTC]', 'datetime64[us, UTC]': 'datetime64[ns, UTC]'}[c['fam']]
        if any(v is None for v in c['cells']) and alt not in cx.NULLABLE:
            return g, 'none', None
        if alt == 'datetime64[s]':
            c['cells'] = [None if v is None else v.replace(microsecond=0) for v in c['cells']]
        old = c['fam']
        c['fam'] = alt
        return g, kind, (c['name'], old, alt)
    if kind == 'position':
        if len(g['cols']) < 2:
            return g, 'none', None
        i, j = rng.sample(range(len(g['cols'])), 2)
        g['cols'][i], g['cols'][j] = g['cols'][j], g['cols'][i]
        return g, kind, (i, j)
    if kind == 'rows':
        if g['nrows'] == 0:
            return g, 'none', None
        for c in g['cols']:
            c['cells'] = c['cells'][:-1]
        g['nrows'] -= 1
        return g, kind, None
    if kind == 'extra':
        g['cols'].append({'name': 'extra', 'fam': 'int64', 'cells': [0] * g['nrows']})
        return g, kind, None
    if kind == 'drop':
        if len(g['cols']) < 2:
            return g, 'none', None
        c = g['cols'].pop(rng.randrange(len(g['cols'])))
        return g, kind, c['name']
    return g, 'none', None


def dtype_name(df, c):
    return str(df[c].dtype)


class C05(core.Prop):
    pid = 'C05'
    lean_modules = ['TddaVerif.Props.C05']
    theorems = ['TddaVerif.Props.C05.' + t for t in [
        'typesMatch_iff', 'typesMatch_refl', 'typesMatch_symm', 'typesMatch_strict_to_medium',
        'typesMatch_medium_to_permissive', 'check_iff_agree', 'copy_passes', 'rowcount_fails', 'missing_column_fails',
        'extra_column_fails', 'wrong_type_fails', 'wrong_order_fails', 'value_difference_fails', 'swap_changes_order',
        'roundTo_close', 'roundTo_grid', 'far_apart_differ', 'cellsEqual_far', 'cellsEqual_refl', 'cellsEqual_null',
        'cellsEqual_symm', 'cellsEqual_near_grid']]
    quick_n = 700
    thorough_n = 12000
    rule = ('cases: a reference frame of 1..4 columns x 0..6 rows over 15 dtype families with nulls, and an actual frame '
            'that is a copy with one mutation (none / one value / one value by less than the precision / a name / a '
            'dtype / a position / the row count / an extra column / a dropped column) x check_data / check_types / '
            'check_order / check_extra_cols as None, False, list, function x sortby x condition x precision 0..10 x '
            'type_matching x {in memory, parquet file, CSV file}; plus all pairs of dtype names for types_match. '
            'non-trivial = a real mutation; distinct by content')
    trusted_base = [
        'Model/CheckPandas.lean is a hand translation of types_match / loosen_type / resolve_option_flag / the structure '
        'checks and the verdict of check_dataframe; tied by the c05.types_match / c05.loosen ops on all pairs of 18 dtype '
        'names x levels, and by c05.structure / c05.check on every generated pair of frames (the reporters of '
        'PandasComparison are spied on by subclassing; nothing in /repo is instrumented)',
        'sortby and condition are not modelled (row selection happens before the row count / value comparison; the oracle '
        'exercises them for internal errors and for the copy / mutation clauses)',
        'DataFrame.equals / sort_values, parquet and CSV readers are not modelled: value equality of whole columns enters the '
        'verdict model as a parameter; the oracle recomputes it cell by cell. Rounding of one numeric cell (numpy.round: half to '
        'even of x * 10^p, divided by 10^p) is modelled on exact rationals (Model/Round.lean) and tied to DataFrame.round on '
        'dyadic values, ties included, for precisions 0..3 (where binary floating point is exact)',
    ]

    def revive(self, case):
        return cx.revive(case)

    def corpus(self):
        return [{'kind': 'types', 'a': a, 'b': b, 'level': lv} for a in DTYPE_NAMES for b in DTYPE_NAMES for lv in LEVELS[1:]]

    def gen_case(self, rng, i):
        if rng.random() < 0.1:
            # rounding on dyadic values (exact in binary floating point, also after scaling by 10^p, p <= 3): incl. ties
            k = rng.randint(0, 6)
            return {'kind': 'round', 'p': rng.randint(0, 3),
                    'vals': [[rng.randint(-4000, 4000), 2 ** k] for _ in range(6)] +
                            [[2 * rng.randint(-50, 50) + 1, 2], [5 * (2 * rng.randint(-40, 40) + 1), 8]]}
        ref = gen_frame(rng)
        precision = rng.choice([None, None, 0, 0, 1, 2, 6, 10])
        force = None
        if rng.random() < 0.2:
            # the clause about rounding: a float column is made sure of, and one cell is moved by less / more than a rounding step
            if not any(c['fam'] in ('float64', 'Float64') for c in ref['cols']):
                if ref['nrows'] == 0:
                    ref['nrows'] = 2
                    for c in ref['cols']:
                        c['cells'] = cx.gen_cells(rng, c['fam'], 2)
                        c['cells'] = [None if (isinstance(x, float) and math.isinf(x)) else x for x in c['cells']]
                fam = rng.choice(['float64', 'float64', 'Float64'])
                ref['cols'].append({'name': 'c%d' % len(ref['cols']), 'fam': fam,
                                    'cells': [rng.randint(-50, 50) / 4 for _ in range(ref['nrows'])]})
            force = rng.choice(['value-within', 'value-beyond'])
        if force is None and rng.random() < 0.04:
            # a text that merely looks like a missing value against a real null, mostly through the CSV entry point
            if not any(c['fam'] in ('object-str', 'string', 'str') for c in ref['cols']):
                if ref['nrows'] == 0:
                    ref['nrows'] = 2
                    for c in ref['cols']:
                        c['cells'] = cx.gen_cells(rng, c['fam'], 2)
                        c['cells'] = [None if (isinstance(x, float) and math.isinf(x)) else x for x in c['cells']]
                ref['cols'].append({'name': 'c%d' % len(ref['cols']), 'fam': 'object-str',
                                    'cells': [rng.choice(['a', 'b', 'abc']) for _ in range(ref['nrows'])]})
            force = 'na-text'
        act, kind, detail = mutate(rng, ref, precision, force)

        def flag(bogus=False):
            r = rng.random()
            names = [c['name'] for c in ref['cols']]
            if rng.random() < 0.3:
                names = sorted(set(names) | {c['name'] for c in act['cols']})
            if bogus and rng.random() < 0.06:
                names = names + ['no_such_col']          # (a name neither frame has, among the columns to compare)
            if r < 0.55:
                return None
            if r < 0.65:
                return False
            if r < 0.9:
                return rng.sample(names, rng.randint(1, len(names)))
            return {'fn_except': rng.sample(names, rng.randint(0, max(0, len(names) - 1)))}
        if kind == 'na-text':
            return {'kind': 'pair', 'ref': ref, 'act': act, 'mut': kind, 'detail': detail, 'check_data': None, 'check_types': flag(),
                    'check_order': None, 'check_extra_cols': None, 'sortby': None, 'condition': None, 'precision': precision,
                    'act_index': None, 'ref_index': None, 'type_matching': rng.choice(LEVELS),
                    'entry': rng.choice(['csv', 'csv', 'csv', 'parquet', 'memory'])}
        return {'kind': 'pair', 'ref': ref, 'act': act, 'mut': kind, 'detail': detail,
                'check_data': flag(True), 'check_types': flag(), 'check_order': flag(), 'check_extra_cols': flag(),
                'sortby': rng.choice([None, None, None, [ref['cols'][0]['name']]]),
                'condition': 'first-col-notnull' if kind in ('row-filtered-out', 'null-in-condition-column') and rng.random() < 0.8
                else rng.choice([None, None, None, 'first-col-notnull']),
                'precision': precision,
                'act_index': rng.choice([None, None, None, None, 'offset', 'reversed', 'strings', 'duplicates']),
                'ref_index': rng.choice([None, None, None, None, None, None, 'offset', 'duplicates']),
                'type_matching': rng.choice(LEVELS),
                'entry': rng.choice(['csv', 'csv', 'csv', 'parquet', 'memory']) if kind == 'na-text' else
                rng.choice(['memory', 'memory', 'parquet', 'csv'])}

    def nontrivial_key(self, case):
        if case['kind'] == 'round':
            self.count('round')
            return None
        if case['kind'] == 'types':
            self.count('types')
            return None
        self.count('mut_' + case['mut'])
        self.count('entry_' + case['entry'])
        return json.dumps(case, sort_keys=True, default=str) if case['mut'] != 'none' else None

    # ---------------------------------------------------------------
    def _flag(self, f, which_df_names):
        if f is None or f is False:
            return f
        if isinstance(f, list):
            return list(f)
        ex = f['fn_except']
        return lambda df: [c for c in list(df) if c not in ex]

    def _resolved(self, f, names):
        if f is None:
            return list(names)
        if f is False:
            return []
        if isinstance(f, list):
            return list(f)
        return [c for c in names if c not in f['fn_except']]

    def model_ops(self, case):
        if case['kind'] == 'types':
            return [{'op': 'c05.types_match', 'a': case['a'], 'b': case['b'], 'level': case['level']},
                    {'op': 'c05.loosen', 't': case['a']}]
        if case['kind'] == 'round':
            ops = [{'op': 'c05.round', 'num': n, 'den': d, 'p': case['p']} for n, d in case['vals']]
            vs = case['vals']
            ops += [{'op': 'c05.cells_equal', 'p': case['p'], 'x': vs[i], 'y': vs[i + 1]} for i in range(len(vs) - 1)]
            return ops
        obs = self._observe(case)
        if obs is None:
            return []
        base = {'act': obs['act_cols'], 'ref': obs['ref_cols'],
                'check_types': self._mflag(case['check_types'], obs['rn']),
                'check_extra_cols': self._mflag(case['check_extra_cols'], obs['an']),
                'check_order_false': case['check_order'] is False,
                'check_order': self._mflag(case['check_order'], obs['rn']),
                'level': case['type_matching']}
        ops = [dict(base, op='c05.structure')]
        if obs['diffcols'] is not None:
            ops.append(dict(base, op='c05.check', check_data=self._mflag(case['check_data'], obs['rn']),
                            nact=case['act']['nrows'], nref=case['ref']['nrows'], diffcols=obs['diffcols']))
        return ops

    def _mflag(self, f, names):
        """a flag as the model takes it: null = all columns of the frame it is resolved against"""
        if f is None:
            return None
        return self._resolved(f, names)

    def _observe(self, case):
        """run PandasComparison.check_dataframe with the reporters spied on; cached on the case"""
        key = json.dumps(case, sort_keys=True, default=str)
        if getattr(self, '_obs_key', None) == key:
            return self._obs
        self._obs_key, self._obs = key, None
        try:
            ref_df, act_df = with_index(cx.to_df(case['ref']), case.get('ref_index')), with_index(cx.to_df(case['act']), case.get('act_index'))
        except Exception:
            return None
        seen = {'missing': [], 'extra': [], 'wrong_types': [], 'wrong_ordering': False}

        class Spy(PandasComparison):
            def missing_columns_detected(self, diffs, missing_cols, ref_df):
                seen['missing'] = sorted(missing_cols)
                return PandasComparison.missing_columns_detected(self, diffs, missing_cols, ref_df)

            def extra_columns_found(self, diffs, extra_cols, df):
                seen['extra'] = sorted(extra_cols)
                return PandasComparison.extra_columns_found(self, diffs, extra_cols, df)

            def field_types_differ(self, diffs, c, dtype, ref_dtype):
                seen['wrong_types'].append(c)
                return PandasComparison.field_types_differ(self, diffs, c, dtype, ref_dtype)

            def different_column_orders(self, diffs, df, ref_df):
                seen['wrong_ordering'] = True
                return PandasComparison.different_column_orders(self, diffs, df, ref_df)
        obs = {'rn': list(ref_df), 'an': list(act_df),
               'ref_cols': [[c, str(ref_df[c].dtype)] for c in ref_df], 'act_cols': [[c, str(act_df[c].dtype)] for c in act_df]}
        try:
            with quiet():
                res = Spy(verbose=False).check_dataframe(
                    act_df.copy(), ref_df.copy(), check_data=self._flag(case['check_data'], None),
                    check_types=self._flag(case['check_types'], None), check_order=self._flag(case['check_order'], None),
                    check_extra_cols=self._flag(case['check_extra_cols'], None), precision=case['precision'],
                    type_matching=case['type_matching'], create_temporaries=False)
            obs['impl'] = {'missing': seen['missing'], 'extra': seen['extra'], 'wrong_types': sorted(seen['wrong_types']),
                           'wrong_ordering': seen['wrong_ordering'],
                           'same': not (seen['missing'] or seen['extra'] or seen['wrong_types'] or seen['wrong_ordering'])}
            obs['passed'] = res.failures == 0
        except Exception as e:   # noqa
            obs['impl'] = {'exc': type(e).__name__}
            obs['passed'] = None
        # which columns hold a differing cell (the statement's value rule, cell by cell) - only when rows pair up
        obs['diffcols'] = None
        if case['act']['nrows'] == case['ref']['nrows']:
            prec = 6 if case['precision'] is None else case['precision']
            rcol = {c['name']: c for c in case['ref']['cols']}
            diff = []
            for c in case['act']['cols']:
                if c['name'] in rcol and not all(cells_equal(x, y, prec) for x, y in zip(c['cells'], rcol[c['name']]['cells'])):
                    diff.append(c['name'])
            obs['diffcols'] = diff
        elif True:
            obs['diffcols'] = []
        self._obs = obs
        return obs

    def impl_outputs(self, case):
        class T:
            def __init__(self, n):
                self.name = n
        if case['kind'] == 'types':
            return [bool(types_match(T(case['a']), T(case['b']), case['level'])), loosen_type(case['a'])]
        if case['kind'] == 'round':
            xs = [n / d for n, d in case['vals']]
            rounded = [float(v) for v in pd.DataFrame({'a': xs}).round(case['p'])['a']]
            out = list(rounded)
            out += [rounded[i] == rounded[i + 1] for i in range(len(xs) - 1)]
            return out
        obs = self._observe(case)
        if obs is None:
            return []
        if 'exc' in obs['impl']:
            return [obs['impl'], obs['impl']]
        return [obs['impl'], obs['passed']]

    def canon_model(self, case, outs):
        res = []
        for o in outs:
            v = o['ok'] if 'ok' in o else {'exc': o.get('exc')}
            if isinstance(v, list) and len(v) == 2 and all(isinstance(t, int) for t in v) and case['kind'] == 'round':
                v = v[0] / v[1]          # the exact rational, as the float it is correctly rounded to
            if isinstance(v, dict) and 'missing' in v:
                v = {'missing': sorted(v['missing']), 'extra': sorted(v['extra']), 'wrong_types': sorted(v['wrong_types']),
                     'wrong_ordering': v['wrong_ordering'], 'same': v['same']}
            res.append(v)
        return res

    # ---------------------------------------------------------------
    def oracle(self, case):
        F = []
        fail = lambda clause, detail, key=None: F.append(core.Failure(clause, case, detail, key or clause))
        if case['kind'] in ('types', 'round'):
            return F
        d = tempfile.mkdtemp(prefix='c05_')
        try:
            try:
                ref_df = with_index(cx.to_df(case['ref']), case.get('ref_index'))
                act_df = with_index(cx.to_df(case['act']), case.get('act_index'))
            except Exception:
                return F
            kw = dict(check_data=self._flag(case['check_data'], None), check_types=self._flag(case['check_types'], None),
                      check_order=self._flag(case['check_order'], None),
                      sortby=case['sortby'], precision=case['precision'], type_matching=case['type_matching'])
            cond = None
            if case['condition'] and len(ref_df.columns):
                first = case['ref']['cols'][0]['name']
                cond = (lambda df: df[first].notnull()) if first in act_df.columns else None
            kw['condition'] = cond
            res = {}

            class R(ReferenceTest):
                verbose = False
                tmp_dir = d
            r = R(lambda ok, msg: res.update(passed=bool(ok), message=msg))
            exc = None
            entry = case['entry']
            try:
                with quiet():
                    if entry == 'memory':
                        r.assertDataFramesEqual(act_df, ref_df, **kw)
                    else:
                        ext = 'parquet' if entry == 'parquet' else 'csv'
                        # (every case of a run writes its reference to the same path: files regenerated in place)
                        if getattr(self, '_refdir', None) is None:
                            self._refdir = tempfile.mkdtemp(prefix='c05ref_')
                            import atexit
                            atexit.register(lambda p_=self._refdir: shutil.rmtree(p_, ignore_errors=True))
                        refpath = os.path.join(self._refdir, 'ref.' + ext)
                        if os.path.exists(refpath):
                            os.remove(refpath)
                        if ext == 'parquet':
                            ref_df.to_parquet(refpath)
                        else:
                            ref_df.to_csv(refpath, index=False)
                        kw2 = dict(kw)
                        kw2.pop('type_matching', None)
                        r.assertDataFrameCorrect(act_df, refpath, type_matching=case['type_matching'], **{k: v for k, v in kw2.items()})
            except Exception as e:  # noqa
                exc = e
            if exc is not None:
                fams = sorted({c['fam'] for c in case['ref']['cols']} | {c['fam'] for c in case['act']['cols']})
                key = 'raises:%s' % type(exc).__name__
                if case['sortby'] and case['mut'] in ('name', 'drop'):
                    key += ':sortby-missing-column'
                fail('raises', '%s: %s (mutation %s, entry %s)' % (type(exc).__name__, str(exc)[:160], case['mut'], entry), key)
                return F
            if entry != 'memory':
                # file entry points: "never an internal error" (CSV loses dtypes by design), and "the same columns": an actual
                # frame with a column the reference lacks never compares as correct, whatever the other options say
                if case['mut'] == 'na-text' and res.get('passed') and case['check_data'] is None and not case['condition'] \
                        and case['detail'][0] in [c['name'] for c in case['act']['cols']]:
                    fail('verdict', 'entry %s: the reference holds the text %r where the actual frame has a null, and they compare as correct'
                         % (entry, [c['cells'][case['detail'][1]] for c in case['ref']['cols'] if c['name'] == case['detail'][0]]),
                         'verdict:false-pass:na-text:file-entry')
                rnames = {c['name'] for c in case['ref']['cols']}
                extra = [c['name'] for c in case['act']['cols'] if c['name'] not in rnames]
                if extra and res.get('passed'):
                    fail('verdict', 'entry %s: the actual frame has the extra column(s) %r and compares as correct (check_order=%r)'
                         % (entry, extra, case['check_order']), 'verdict:false-pass:extra-column:file-entry')
                return F
            want = self.spec(case)
            if want is None:
                return F
            if res.get('passed') != want:
                fail('verdict', 'mutation %s (%r): assertion %s, the stated rule says %s'
                     % (case['mut'], case['detail'], 'passed' if res.get('passed') else 'failed',
                        'pass' if want else 'fail'),
                     'verdict:%s:%s' % ('false-pass' if res.get('passed') else 'false-fail', case['mut']))
            if not res.get('passed') and not (res.get('message') or '').strip():
                fail('no-description', 'failure without a description')
        finally:
            shutil.rmtree(d, ignore_errors=True)
        return F

    def spec(self, case):
        """the statement, evaluated on the abstract frames; None = outside what it pins down"""
        ref, act = case['ref'], case['act']
        rn = [c['name'] for c in ref['cols']]
        an = [c['name'] for c in act['cols']]
        rcol = {c['name']: c for c in ref['cols']}
        acol = {c['name']: c for c in act['cols']}
        ct = self._resolved(case['check_types'], rn)
        # extra columns: assertDataFramesEqual has no check_extra_cols parameter, so every actual column is
        # checked against the reference ("the same columns")
        if any(c not in rcol for c in an):
            return False
        level = case['type_matching'] or 'strict'
        ref_df, act_df = cx.to_df(ref), cx.to_df(act)

        class T:
            def __init__(self, n):
                self.name = n
        for c in ct:
            if c not in acol:
                return False
            ta, tr = str(act_df[c].dtype), str(ref_df[c].dtype)
            ta = 'string' if ta == 'category' else ta
            tr = 'string' if tr == 'category' else tr
            if not spec_types_match(ta, tr, level):
                return False
        if case['check_order'] is not False:
            co = self._resolved(case['check_order'], rn)
            o1 = [c for c in an if c in co and c in rcol]
            o2 = [c for c in rn if c in co and c in acol]
            if o1 != o2:
                return False
        if case['sortby']:
            return None    # ordering: left to the passes-on-copy and failing-mutation clauses
        keep_a = keep_r = None
        if case['condition']:
            # "the same number of rows after any condition": each frame is filtered by its own first reference column
            first = ref['cols'][0]['name']
            if first not in acol:
                return None

            def isnull(v):
                return v is None or (isinstance(v, float) and math.isnan(v))
            keep_a = [not isnull(v) for v in acol[first]['cells']]
            keep_r = [not isnull(v) for v in rcol[first]['cells']]
        sel = lambda cells, keep: cells if keep is None else [c for c, k in zip(cells, keep) if k]
        if len(sel(list(range(act['nrows'])), keep_a)) != len(sel(list(range(ref['nrows'])), keep_r)):
            return False
        cd = self._resolved(case['check_data'], rn)
        prec = 6 if case['precision'] is None else case['precision']
        for c in cd:
            if c not in acol:
                return False     # a column selected for the value check is missing
            for x, y in zip(sel(acol[c]['cells'], keep_a), sel(rcol[c]['cells'], keep_r)):
                if not cells_equal(x, y, prec):
                    return False
        return True


def cells_equal(x, y, prec):
    xn = x is None or (isinstance(x, float) and math.isnan(x))
    yn = y is None or (isinstance(y, float) and math.isnan(y))
    if xn or yn:
        return xn and yn
    if isinstance(x, float) or isinstance(y, float):
        try:
            return round(float(x), prec) == round(float(y), prec)
        except Exception:
            return x == y
    return x == y


def spec_types_match(a, b, level):
    """documented levels: strict = same dtype; medium = same kind ignoring bit width / nullability / object
    wrappers; permissive = additionally any two numeric kinds"""
    if a == b:
        return True
    if level == 'strict':
        return False

    def loose(t):
        n = ''.join(ch for ch in t if not ch.isdigit()).lower()
        n = n.split('[')[0]
        return 'bool' if n == 'boolean' else n
    la, lb = loose(a), loose(b)
    if la == lb:
        return True
    objs = ('string', 'boolean', 'datetime', 'bool')
    if (la == 'object' and lb in objs) or (lb == 'object' and la in objs):
        return True
    if level == 'permissive' and la in ('bool', 'boolean', 'int', 'float') and lb in ('bool', 'boolean', 'int', 'float'):
        return True
    return False


PROP = C05
