"""C15 - failed text assertions leave faithful artefacts; passing ones leave none."""
import json
import os
import re
import shutil
import tempfile

import core
import cfcommon as cf
import tdcommon as td

CMP = re.compile(r'Compare (raw |post-processed )?with:\n    (\S+) (\S+) (\S+)\n')
BIN = re.compile(r'First difference at byte offset (\d+), (?:both files have length (\d+)|actual length (\d+), expected length (\d+))\.')


def run_binary(case):
    root = tempfile.mkdtemp(prefix='cfb_')
    try:
        late_tmp = case.get('late_tmp', (len(case['actual']) + len(case['expected'])) % 4 == 1)
        if not late_tmp:
            os.makedirs(os.path.join(root, 'tmp'))
        ref = os.path.join(root, 'ref.bin')
        act = os.path.join(root, 'act.bin')
        with open(ref, 'wb') as f:
            f.write(bytes(case['expected']))
        with open(act, 'wb') as f:
            f.write(bytes(case['actual']))
        before = cf.snapshot(root)
        res = {}

        class R(cf._Ref):
            tmp_dir = os.path.join(root, 'tmp')
        R.regenerate = {}
        saved_env = os.environ.get('TDDA_FAIL_DIR')
        if len(case['actual']) % 2 == 0:
            os.makedirs(os.path.join(root, 'envfail'), exist_ok=True)
            os.environ['TDDA_FAIL_DIR'] = os.path.join(root, 'envfail')
        r = R(lambda ok, msg: res.update(passed=bool(ok), message=msg))
        os.makedirs(os.path.join(root, 'tmp'), exist_ok=True)
        exc = None
        try:
            r.assertBinaryFileCorrect(act, ref)
        except Exception as e:  # noqa
            exc = e
        finally:
            if saved_env is None:
                os.environ.pop('TDDA_FAIL_DIR', None)
            else:
                os.environ['TDDA_FAIL_DIR'] = saved_env
        return dict(res, exc=exc, before=before, after=cf.snapshot(root), root=root, refpath=ref, actpath=act)
    finally:
        shutil.rmtree(root, ignore_errors=True)


class C15(core.Prop):
    pid = 'C15'
    lean_modules = ['TddaVerif.Props.C15']
    theorems = ['TddaVerif.Props.C15.' + t for t in ['pass_writes_nothing', 'raw_actual_content', 'file_actual_not_rewritten',
        'binary_offset_exact', 'diffMarker_shape', 'diffMarker_self', 'postprocessed_differ_exactly',
        'configured_dir_wins', 'env_dir_when_unset', 'system_dir_otherwise', 'written_inside', 'written_nodup',
        'no_temporaries_writes_nothing']]
    quick_n = 1500
    thorough_n = 30000
    rule = ('cases: the (actual, reference, options, entry point) cases of C04 (near-miss edits x option subsets x '
            'string / file / list-of-files) plus pairs of byte strings of length 0..12 over a 3-value alphabet with '
            '0..2 edits for the binary assertion; the scratch tree is snapshotted before and after each assertion; '
            'calls of the real add_failures (write_file recorded) over actual / reference paths of every shape and seven '
            'directories; the temporary directory of a fresh test object in a fresh interpreter for every set_defaults value x '
            'TDDA_FAIL_DIR unset / empty / set. '
            'non-trivial = failing assertion; distinct by content')
    trusted_base = [
        'CPython re (pattern table), file decoding; message wording is parsed by regex in the harness',
    ]

    def corpus(self):
        return [
            {'entry': 'string', 'actual': 'a\nb\n', 'expected': 'a\nc\n', 'opts': {}},
            {'entry': 'string', 'actual': 'x\nuser bob\ny1\n', 'expected': 'x\ny2\n', 'opts': {'remove_lines': ['user']}},
            {'entry': 'string', 'actual': 'k\nid 1\nz\n', 'expected': 'user q\nk\nid 2\nw\n',
             'opts': {'remove_lines': ['user'], 'ignore_substrings': ['id']}},
            {'entry': 'binary', 'actual': [1, 2, 3], 'expected': [1, 2, 4, 5]},
            {'entry': 'binary', 'actual': [1, 2], 'expected': [1, 2, 3]},
        ] + [{'entry': 'tmpdir', 'env': e} for e in td.ENVS]

    def gen_case(self, rng, i):
        if rng.random() < 0.1:
            return td.gen_written(rng)
        if rng.random() < 0.2:
            n = rng.randint(0, 12)
            if rng.random() < 0.25:
                # files of several blocks (any block size a faster comparison might use): 4096 +- 1, 8192, 10000 ...
                n = rng.choice([4095, 4096, 4097, 5000, 8191, 8192, 8200, 10000])
                exp = [(i * 7 + i // 256) % 251 for i in range(n)]
                act = list(exp)
                r = rng.random()
                if r < 0.6:
                    k = min(n - 1, rng.choice([0, 1, 4095, 4096, 4097, n - 1, rng.randrange(n)]))
                    act[k] = (act[k] + 1) % 256
                    if rng.random() < 0.3:
                        act[rng.randrange(k, n)] ^= 1
                elif r < 0.8:
                    act = act + [rng.randrange(256) for _ in range(rng.choice([1, 4096]))]
                else:
                    act = act[:rng.choice([0, 4096, n - 1])]
                return {'entry': 'binary', 'actual': act, 'expected': exp}
            exp = [rng.choice([0, 10, 255]) for _ in range(n)]
            act = list(exp)
            for _ in range(rng.choice([0, 1, 1, 2])):
                r = rng.random()
                if act and r < 0.5:
                    act[rng.randrange(len(act))] = rng.choice([0, 10, 255, 7])
                elif r < 0.75:
                    act.insert(rng.randint(0, len(act)), rng.choice([0, 10, 255]))
                elif act:
                    del act[rng.randrange(len(act))]
            return {'entry': 'binary', 'actual': act, 'expected': exp}
        return cf.gen_case(rng)

    def model_ops(self, case):
        if case['entry'] == 'written':
            return [td.written_op(case), td.pathops_op(case['d'], case['actual_path'] or case['expected_path'] or 'file')]
        if case['entry'] == 'tmpdir':
            return td.tmpdir_ops(case['env'])
        if case['entry'] == 'binary':
            return [{'op': 'c04.first_diff', 'a': case['actual'], 'b': case['expected']}]
        try:
            return [cf.model_op(case)]
        except ValueError:
            return []

    def impl_outputs(self, case):
        if case['entry'] == 'written':
            return [td.run_written(case), td.pathops_impl(case['d'], case['actual_path'] or case['expected_path'] or 'file')]
        if case['entry'] == 'tmpdir':
            return td.run_tmpdir(case['env'])
        if case['entry'] == 'binary':
            r = run_binary(case)
            m = BIN.search(r.get('message') or '')
            if r.get('passed'):
                # equal files: the scan is not run; the model's answer is the common length
                return [len(case['actual'])]
            return [int(m.group(1)) if m else None]
        return [cf.impl_output(case)]

    def canon_model(self, case, outs):
        return [o['ok'] if 'ok' in o else {'exc': o.get('exc')} for o in outs]

    def nontrivial_key(self, case):
        self.count('entry_' + case['entry'])
        if case['entry'] in ('written', 'tmpdir'):
            return json.dumps(case, sort_keys=True)
        if case['actual'] != case['expected']:
            return json.dumps(case, sort_keys=True)
        return None

    def oracle(self, case):
        F = []
        fail = lambda clause, detail, key=None: F.append(core.Failure(clause, case, detail, key or clause))
        if case['entry'] == 'written':
            # every path handed to write_file lies directly in the temporary directory, and no two are the same
            got = td.run_written(case)
            if isinstance(got, dict):
                fail('raises', repr(got), 'raises:' + got['exc'])
                return F
            want_dir = os.path.normpath(case['d'])
            for p in got:
                if (os.path.dirname(os.path.normpath(p)) or '.') != want_dir:
                    fail('writes-outside-tmp', 'writes %r, temporary directory is %r' % (p, case['d']))
            if len(set(got)) != len(got):
                fail('artefacts-collide', 'one failure writes the same path twice: %r' % got)
            if not case['create'] and got:
                fail('pass-writes', 'create_temporaries=False wrote %r' % got)
            return F
        if case['entry'] == 'tmpdir':
            got = td.run_tmpdir(case['env'])
            for v, g in zip(td.SETD, got):
                want = td.expected_tmpdir(v, case['env'])
                if g != want:
                    fail('tmp-dir-precedence', 'set_defaults %r, TDDA_FAIL_DIR %r: files go to %r, expected %r'
                         % (v, case['env'], g, want))
            return F
        binary = case['entry'] == 'binary'
        r = run_binary(case) if binary else cf.run_assert(case)
        if r['exc'] is not None:
            fail('raises', repr(r['exc']), 'raises:' + type(r['exc']).__name__)
            return F
        before, after = r['before'], r['after']
        changed = [k for k in after if before.get(k) != after[k]] + [k for k in before if k not in after]
        outside = [k for k in changed if not k.startswith('tmp' + os.sep)]
        if outside:
            fail('writes-outside-tmp', 'changed outside the temporary directory: %r' % outside)
        if r['passed']:
            self.count('passing')
            if changed:
                fail('pass-writes', 'a passing assertion wrote %r' % changed)
            return F
        self.count('failing')
        msg = r['message'] or ''
        rel = lambda p: os.path.relpath(p, r['root'])
        cmds = CMP.findall(msg)
        if not cmds:
            fail('no-compare-command', 'failure message names no comparison command: %r' % msg[:200])
            return F
        raw_cmd = None
        post_cmd = None
        for qual, _cmd, a, e in cmds:
            for p in (a, e):
                if rel(p) not in after:
                    fail('named-file-missing', '%s names %s which does not exist' % (qual or 'plain', rel(p)))
            if qual == 'post-processed ':
                post_cmd = (a, e)
            else:
                raw_cmd = (a, e)
        if binary:
            m = BIN.search(msg)
            if not m:
                fail('binary-no-offset', 'no offset line in %r' % msg[:200])
                return F
            a, e = bytes(case['actual']), bytes(case['expected'])
            k = 0
            while k < min(len(a), len(e)) and a[k] == e[k]:
                k += 1
            want_len = (len(a), len(e))
            got_len = (int(m.group(2)),) * 2 if m.group(2) else (int(m.group(3)), int(m.group(4)))
            if int(m.group(1)) != k:
                fail('binary-offset', 'reported %s, first difference at %d' % (m.group(1), k))
            if got_len != want_len:
                fail('binary-lengths', 'reported %r, real %r' % (got_len, want_len))
            return F
        # a failed string assertion leaves the actual content in a file the message names (also when the actual text is
        # empty or every line of it was removed)
        if case['entry'] == 'string' and not raw_cmd:
            fail('no-raw-actual', 'the failure message of a string assertion names no file holding the actual content: %r' % msg[:300])
        # the file given as actual holds exactly the actual content
        if raw_cmd:
            apath = rel(raw_cmd[0])
            got = after.get(apath)
            if got is not None:
                want = case['actual'].encode('utf-8')
                if got != want:
                    o = case['opts']
                    if case['entry'] == 'string':
                        # classify the cause
                        def norm_nl(b):
                            return b.replace(b'\r\n', b'\n').replace(b'\r', b'\n')
                        if norm_nl(got).rstrip(b'\n') == norm_nl(want).rstrip(b'\n'):
                            # same call site, same cause: the file is '\n'.join(lines) - only line endings and
                            # trailing newlines / empty lines can differ
                            key = 'raw-actual:final-newline-or-line-endings'
                        elif o.get('remove_lines') or o.get('preprocess'):
                            key = 'raw-actual:holds-text-after-removal-or-preprocess'
                        else:
                            key = 'raw-actual'
                        fail('raw-actual', 'file %s holds %r, actual was %r' % (apath, got[:80], want[:80]), key)
                    else:
                        fail('raw-actual', 'actual file was modified')
        o = case['opts']
        exclusions = any(o.get(k) for k in ('ignore_substrings', 'ignore_patterns', 'remove_lines'))
        if exclusions:
            if not post_cmd:
                # required when an exclusion actually removed or excused something ("in force")
                why = self.exclusion_applied(case)
                if why:
                    fail('no-post-processed-pair', 'an exclusion was in force (%s) and the failure names no post-processed pair: %r'
                         % (why, msg[:200]), 'no-post-processed-pair:' + why.split(':')[0])
            else:
                pa = after.get(rel(post_cmd[0]))
                pe = after.get(rel(post_cmd[1]))
                if pa is not None and pe is not None:
                    ta = cf.HEADER.sub('', pa.decode('utf-8'), count=1)
                    te = cf.HEADER.sub('', pe.decode('utf-8'), count=1)
                    la, le = ta.split('\n'), te.split('\n')
                    got_pairs = [(x, y) for x, y in zip(la, le) if x != y]
                    if len(la) != len(le):
                        got_pairs = None
                    want_pairs = self.unexcused_pairs(case)
                    if want_pairs is not None and got_pairs is None:
                        # both sides keep the same number of lines after removal: the two reconstructions then have the
                        # same number of lines (removed lines are collapsed to the same marker on both sides)
                        fail('post-processed-differ', 'post-processed files have %d and %d lines although both sides keep '
                             'the same number of lines after removal' % (len(la), len(le)), 'post-processed-differ:line-count')
                    if want_pairs is not None and got_pairs is not None and got_pairs != want_pairs:
                        fail('post-processed-differ', 'post-processed files differ on %r, unexcused differences are %r'
                             % (got_pairs[:4], want_pairs[:4]))
                    self.count('post_processed_checked')
        return F

    def exclusion_applied(self, case):
        """a reason why an exclusion was certainly in force in this comparison (a line removed on either side; a pair of
        lines, met position by position before any unexcused difference, that differs and is excused), or None"""
        o = case['opts']
        act, exp = cf.lines_seen_by_code(case)
        pp = cf.PREPROCESS[o.get('preprocess')]
        if pp:
            exp, act = pp(exp), pp(act)
        if act and act[-1] == '':
            act = act[:-1]
        if exp and exp[-1] == '':
            exp = exp[:-1]
        if pp:
            return 'preprocess: a preprocessing function was given'
        if case['entry'] == 'string' and act != exp:
            return 'string: the actual text was given as a string and differs'
        rem = o.get('remove_lines') or []
        if any(any(x in l for x in rem) for l in act):
            return 'removed: a line of the actual text'
        if any(any(x in l for x in rem) for l in exp):
            return 'removed: a line of the reference'

        def norm(s_):
            if o.get('lstrip') and o.get('rstrip'):
                return s_.strip()
            return s_.lstrip() if o.get('lstrip') else s_.rstrip() if o.get('rstrip') else s_
        subs = o.get('ignore_substrings') or []
        pats = o.get('ignore_patterns') or []
        for a, e in zip(act, exp):
            if norm(a) == norm(e):
                continue
            if any(s_ in norm(e) for s_ in subs):
                return 'excused: by a substring'
            if pats and cf.doc_pat_equiv(norm(a), norm(e), pats):
                return 'excused: by a pattern'
            if len(act) != len(exp):
                break               # (with different numbers of lines the comparison stops at the first unexcused pair)
        return None

    def unexcused_pairs(self, case):
        """Normalized (actual, expected) pairs with an unexcused difference, in order; None when the two
        sides have different numbers of lines after removal (then 'exactly the lines' is not defined)."""
        o = case['opts']
        act, exp = cf.lines_seen_by_code(case)
        pp = cf.PREPROCESS[o.get('preprocess')]
        if pp:
            exp, act = pp(exp), pp(act)
        if act and act[-1] == '':
            act = act[:-1]
        if exp and exp[-1] == '':
            exp = exp[:-1]
        rem = o.get('remove_lines') or []
        act = [l for l in act if not any(x in l for x in rem)]
        exp = [l for l in exp if not any(x in l for x in rem)]
        if len(act) != len(exp):
            return None

        def norm(s):
            if o.get('lstrip') and o.get('rstrip'):
                return s.strip()
            if o.get('lstrip'):
                return s.lstrip()
            if o.get('rstrip'):
                return s.rstrip()
            return s
        subs = o.get('ignore_substrings') or []
        pats = o.get('ignore_patterns') or []
        out = []
        for a, e in zip(act, exp):
            if norm(a) == norm(e):
                continue
            if any(s in norm(e) for s in subs):     # (the reference line as compared: after the stripping requested)
                continue
            if pats and cf.doc_pat_equiv(norm(a), norm(e), pats):
                continue
            out.append((norm(a), norm(e)))
        return out


PROP = C15
