"""C14 - rexpy results depend only on the multiset of examples and the seed."""
import json
import random

import core
import rxcommon as rx
import translate

core.setup_repo_path()


class C14(core.Prop):
    pid = 'C14'
    lean_modules = ['TddaVerif.Props.C14']
    theorems = ['TddaVerif.Props.C14.' + t for t in [
        'order_independent', 'clean_dict_eq_list', 'dict_eq_list', 'freq_irrelevant', 'repeat_is_noop', 'series_eq_list', 'order_independent_every_size']]
    quick_n = 300
    thorough_n = 15000
    rule = ('cases: example multisets (as C03) x option subsets x Size settings that force sampling x seeds; each is '
            'extracted in the given order, in up to 5 random permutations, as a frequency dictionary, twice in a row, '
            'with one example repeated, and after an unrelated extraction (shared regex memo); seeded calls are '
            'repeated from different global PRNG states and the global state is compared before / after. '
            'non-trivial = >= 3 distinct examples; distinct by content')
    trusted_base = [
        'as C03: hand-written Lean model of the batch path, tied by correspondence on the given order, one permutation and '
        'the dictionary form of every non-sampling case',
        'proved (batch path): invariance under reordering (whole result, with or without pruning), dictionary = list form, '
        'irrelevance of frequencies and of repeats (no pruning), pandas-column form (pdextract) = list form; the model is a pure function so a call cannot depend on '
        'history. NOT proved: everything about sampling, seeds, the global PRNG, hash order and the regex memo (oracle only: '
        '5 permutations per case, fresh-process re-evaluation under another hash seed)',
        'set / dict iteration order of CPython for the run\'s PYTHONHASHSEED (the thorough tier repeats under a second hash seed)',
    ]

    def corpus(self):
        return [
            {'examples': ['ab', 'cd', '12', '1-2', 'x_y', 'QQ', 'zz9', 'a-b'], 'opts': {},
             'size': {'do_all': 3, 'do_all_exceptions': 2, 'max_sampled_attempts': 1}, 'seed': 5},
            {'examples': ['aa', 'bb', 'a1', '1a', '11'], 'opts': {}, 'size': None, 'seed': None},
        ]

    def gen_case(self, rng, i):
        opts = rx.gen_opts(rng)
        if rng.random() < 0.15:
            # pruning options: here the counts matter (a frequency dictionary must still equal the list it stands for)
            if rng.random() < 0.6:
                opts['min_strings_per_pattern'] = rng.choice([1, 2, 2, 3])
            else:
                opts['max_patterns'] = rng.choice([1, 2, 3])
        ex = rx.gen_examples(rng)
        if rng.random() < 0.08:
            # strip with pruning: several spellings (blanks around) of one string are one string, and their counts add up
            opts['strip'] = True
            for k_ in ('min_strings_per_pattern', 'max_patterns'):
                opts.pop(k_, None)
            if rng.random() < 0.5:
                opts['min_strings_per_pattern'] = rng.choice([2, 3, 4])
            else:
                opts['max_patterns'] = rng.choice([1, 2])
            ex = []
            for w in rng.sample(['xy', 'AB', '1-2', '7.5', 'q', 'id:9', 'Zz'], rng.randint(2, 4)):
                for sp in rng.sample([w, w + ' ', ' ' + w, '  ' + w + ' '], rng.randint(1, 3)):
                    ex += [sp] * rng.randint(1, 4)
            rng.shuffle(ex)
        if 'min_strings_per_pattern' in opts or 'max_patterns' in opts:
            ex = [s_ for s_ in ex for _ in range(rng.choice([1, 1, 2, 3]))]      # repeats
        return {'examples': ex, 'opts': opts, 'size': rx.gen_size(rng),
                'seed': rng.choice([None, 0, 1, 7, 2024]), 'perm_seed': rng.randrange(10 ** 6)}

    def translate(self):
        return translate.regenerate(['Rexpy'])

    def _variants(self, case):
        p = list(case['examples'])
        random.Random(case.get('perm_seed', 0) + 1).shuffle(p)
        return [(case['examples'], 'list'), (p, 'list'), (case['examples'], 'dict'), (case['examples'], 'dict0')]

    def _recorded(self, case):
        key = json.dumps(case, sort_keys=True)
        if getattr(self, '_rk', None) != key:
            self._rk = key
            self._rv = [rx.run_extract_recorded(ex, case['opts'], case['size'], case['seed'], form)
                        for ex, form in self._variants(case)]
        return self._rv

    def model_ops(self, case):
        if case.get('kind') == 'history':
            return []
        if not rx.modelled(case['examples'], case['opts']):
            return []
        if rx.nosampling(case['examples'], case['opts'], case['size']):
            ops = [rx.model_extract_op(ex, case['opts'], form, case['size']) for ex, form in self._variants(case)]
            if self._series_ok(case):
                ops.append({'op': 'rx.pdextract', 'table': rx.char_table(case['examples'], ascii_digits=True), 'cols': self._cols(case)})
            return ops
        ops = []
        for (ex, form), (res, exc, picks) in zip(self._variants(case), self._recorded(case)):
            if exc is not None or any(not isinstance(x, list) for p in picks for x in p):
                return []
            ops.append(rx.model_sampled_op(ex, case['opts'], case['size'], picks, form))
        self.count('sampled_traces')
        return ops

    def _series_ok(self, case):
        """pdextract takes no options: cases without options and Size, small enough not to be sampled"""
        return not case['opts'] and not case['size'] and len(case['examples']) < 90

    def _cols(self, case):
        ex = case['examples']
        k = (case.get('perm_seed', 0) % (len(ex) + 1)) if ex else 0
        return [list(ex[:k]), list(ex[k:])]

    def _pdextract(self, case):
        """the real pdextract on two object columns; the strings it hands to extract are spied on"""
        import pandas as pd
        seen = {}
        real = rx.rexpy.extract

        def spy(strings, *a, **kw):
            seen['strings'] = list(strings)
            return real(strings, *a, **kw)
        st = random.getstate()
        rx.rexpy.extract = spy
        try:
            res = rx.rexpy.pdextract([pd.Series(c, dtype=object) for c in self._cols(case)], seed=case['seed'])
            out = {'rex': list(res), 'strings': seen.get('strings')}
        except Exception as e:   # noqa
            out = {'exc': type(e).__name__}
        finally:
            rx.rexpy.extract = real
            random.setstate(st)
        return out

    def impl_outputs(self, case):
        if rx.nosampling(case['examples'], case['opts'], case['size']):
            outs = [rx.impl_rex(ex, case['opts'], case['size'], case['seed'], form) for ex, form in self._variants(case)]
            if self._series_ok(case):
                outs.append(self._pdextract(case))
            return outs
        return [{'exc': type(exc).__name__} if exc is not None else {'rex': list(res)} for res, exc, _ in self._recorded(case)]

    def canon_model(self, case, outs):
        res = rx.canon_rex(outs)
        for i, o in enumerate(outs):
            if 'ok' in o and 'strings' in o['ok']:
                res[i] = {'rex': o['ok']['rex'], 'strings': o['ok']['strings']}
        return res

    def nontrivial_key(self, case):
        if case.get('kind') == 'history':
            return None
        if case['size']:
            self.count('sized')
        if case['seed'] is not None:
            self.count('seeded')
        return json.dumps(case, sort_keys=True) if len(set(case['examples'])) >= 3 else None

    def _deterministic(self, case):
        kept = set(rx.kept_examples(case['examples'], case['opts']))
        sampled = bool(case['size']) and len(kept) > case['size']['do_all']
        return case['seed'] is not None or not sampled

    def history_oracle(self, case):
        """case = {'kind': 'history', 'cases': [...]}: the last call, made after the others in one process, against
        the same call in a fresh process, and under two hash seeds"""
        F = []
        hist = case['cases']
        alone0, after0 = rx.fresh_results([[hist[-1]], hist], hashseed=0)
        alone1, = rx.fresh_results([[hist[-1]]], hashseed=1)
        if alone0 != alone1:
            F.append(core.Failure('hash-order-dependent', case, 'PYTHONHASHSEED=0 gives %r, =1 gives %r' % (alone0, alone1),
                                  'hash-order-dependent'))
        if after0 != alone0:
            F.append(core.Failure('history-dependent', case, 'in a fresh process: %r; after %d other call(s): %r'
                                  % (alone0, len(hist) - 1, after0), 'history-dependent:fresh-process'))
        return F

    def finish(self, cases):
        """every deterministic case of the run, re-evaluated alone in a fresh process (and under another hash seed),
        against the result it gave in this process after all the calls before it"""
        idx = [i for i, c in enumerate(cases) if c.get('kind') != 'history' and i in self._base and self._deterministic(c)]
        if not idx:
            return []
        fresh = rx.fresh_results([[cases[i]] for i in idx], hashseed=0)
        self.count('fresh_process_comparisons', len(idx))
        F = []
        for i, fr in zip(idx, fresh):
            if fr == self._base[i]:
                continue
            # which earlier call matters?  try each predecessor alone, then the whole prefix
            prev = [j for j in range(i) if cases[j].get('kind') != 'history']
            pairs = rx.fresh_results([[cases[j], cases[i]] for j in prev], hashseed=0) if prev else []
            hist = None
            for j, r in zip(prev, pairs):
                if r != fr:
                    hist = [cases[j], cases[i]]
                    break
            if hist is None:
                hist = [cases[j] for j in prev] + [cases[i]]
            fs = self.history_oracle({'kind': 'history', 'cases': hist})
            if not fs:
                fs = [core.Failure('differs-from-fresh-process', {'kind': 'history', 'cases': hist},
                                   'in this process %r, alone in a fresh process %r' % (self._base[i], fr),
                                   'differs-from-fresh-process')]
            F.extend(fs)
            if len(F) >= 3:
                break
        return F

    def oracle(self, case):
        F = []
        self._cur = getattr(self, '_cur', -1) + 1
        if not hasattr(self, '_base'):
            self._base = {}
        if case.get('kind') == 'history':
            return self.history_oracle(case)
        fail = lambda clause, detail, key=None: F.append(core.Failure(clause, case, detail, key or clause))
        ex, opts, size, seed = case['examples'], case['opts'], case['size'], case['seed']
        kept = set(rx.kept_examples(ex, opts))
        sampled = bool(size) and len(kept) > size['do_all']
        sk = ':sampled' if sampled else ''
        rng = random.Random(case.get('perm_seed', 0))
        base, exc, st0, st1 = rx.run_extract(ex, opts, size, seed, 'list')
        if exc is not None:
            return F   # C03 / C13 territory
        self._base[self._cur] = {'rex': list(base)}
        if seed is not None and st0 != st1:
            fail('prng-state-changed', 'global random state differs after a seeded call', 'prng-state-changed' + sk)
        deterministic = seed is not None or not sampled
        # repeat
        again, exc2, _, _ = rx.run_extract(ex, opts, size, seed, 'list')
        if deterministic and again != base:
            fail('repeat-differs', '%r then %r' % (base, again), 'repeat-differs' + sk)
        if seed is not None:
            # reproducible from a different global state
            random.seed(rng.randrange(10 ** 9))
            other, _, _, _ = rx.run_extract(ex, opts, size, seed, 'list', keep_random=False)
            if other != base:
                fail('seed-not-reproducible', '%r vs %r' % (base, other), 'seed-not-reproducible' + sk)
        if not deterministic:
            return F
        # permutations
        for _ in range(5):
            p = list(ex)
            rng.shuffle(p)
            r, e, _, _ = rx.run_extract(p, opts, size, seed, 'list')
            if e is None and r != base:
                fail('order-dependent', 'order %r gives %r, order %r gives %r' % (ex[:6], base, p[:6], r),
                     'order-dependent' + sk)
                break
        # dictionary form
        r, e, _, _ = rx.run_extract(ex, opts, size, seed, 'dict')
        if e is None and r != base:
            fail('dict-differs', 'list %r dict %r' % (base, r), 'dict-differs' + sk)
        # and with further keys supplied zero times (they are not examples)
        r, e, _, _ = rx.run_extract(ex, opts, size, seed, 'dict0')
        if e is None and r != base:
            fail('dict-differs', 'list %r, dictionary with keys of count 0 %r' % (base, r), 'dict-differs:zero-count' + sk)
        # the two-step route (an Extractor built with extract=False, extraction asked for later) with a seed: the global
        # generator is the same after each step as before it, and the expressions are the same
        if seed is not None:
            kw2 = dict(opts)
            if size:
                kw2['size'] = rx.rexpy.Size(**size)
            st_a = random.getstate()
            try:
                x2 = rx.rexpy.Extractor(list(ex), extract=False, seed=seed, **kw2)
                st_b = random.getstate()
                x2.extract()
                st_c = random.getstate()
                r2 = list(x2.results.rex) if x2.results else []
                if st_b != st_a or st_c != st_a:
                    fail('prng-state-changed', 'two-step extraction with a seed: the global random state differs after %s'
                         % ('the constructor' if st_b != st_a else 'extract()'), 'prng-state-changed:two-step' + sk)
                elif r2 != base:
                    fail('repeat-differs', 'two-step extraction gives %r, extract() %r' % (r2, base), 'repeat-differs:two-step' + sk)
            except Exception:   # noqa
                pass
            finally:
                random.setstate(st_a)
        # rexpy_streams on the caller's own list, with a header line to skip: the same expressions on every call, and the
        # list is the caller's
        hdr = ['header'] + list(ex)
        hdr0 = list(hdr)
        kw_s = dict(opts)
        if size:
            kw_s['size'] = rx.rexpy.Size(**size)
        for n_ in range(3):
            st_a = random.getstate()
            try:
                r = rx.rexpy.rexpy_streams(hdr, out_path=False, skip_header=True, seed=seed, **kw_s)
            except Exception as e_:   # noqa
                r = 'exc:' + type(e_).__name__
            random.setstate(st_a)
            if hdr != hdr0:
                fail('input-changed', 'rexpy_streams changed the list it was given: %r -> %r' % (hdr0[:4], hdr[:4]), 'input-changed:streams')
                break
            if r != base:
                fail('repeat-differs', 'rexpy_streams, call %d: %r, extract: %r' % (n_ + 1, r, base), 'repeat-differs:streams' + sk)
                break
        # byte strings with an encoding: a list and a frequency dictionary of the same examples
        if all(isinstance(s_, str) for s_ in ex):
            try:
                bl = [s_.encode('utf-8') for s_ in ex]
            except UnicodeEncodeError:
                bl = None
            if bl is not None:
                bd = {}
                for b_ in bl:
                    bd[b_] = bd.get(b_, 0) + 1
                kw_ = dict(opts)
                if size:
                    kw_['size'] = rx.rexpy.Size(**size)
                for fname, arg in (('bytes-list', bl), ('bytes-dict', bd)):
                    st_a = random.getstate()
                    try:
                        r = rx.rexpy.extract(arg, seed=seed, encoding='utf-8', **kw_)
                    except Exception as e_:   # noqa
                        r = 'exc:' + type(e_).__name__
                    random.setstate(st_a)
                    if r != base:
                        fail('bytes-differs', 'list %r, %s %r' % (base, fname, r), 'bytes-differs:' + fname + sk)
        # pandas column forms (pdextract takes no options): object / str / categorical columns, categoricals with
        # categories no row uses, several columns - the result depends only on the strings that occur
        if not opts and not size:
            import pandas as pd
            unused = [u for u in ('Q-77', 'zz', 'UNUSED_9') if u not in ex]
            k = len(ex) // 2
            forms = {}
            try:
                forms['object'] = pd.Series(list(ex), dtype=object)
                forms['str'] = pd.Series(list(ex), dtype='str')
                forms['category'] = pd.Series(list(ex), dtype=object).astype('category')
                cats = sorted({s_ for s_ in ex if s_ is not None})
                forms['category-unused'] = pd.Series(list(ex), dtype=object).astype(pd.CategoricalDtype(cats + unused))
                forms['category-filtered'] = pd.Series(list(ex) + unused, dtype=object).astype('category').iloc[:len(ex)]
                forms['two-columns'] = [pd.Series(list(ex[:k]), dtype=object), pd.Series(list(ex[k:]), dtype=object)]
            except Exception:   # noqa  (a value pandas cannot hold in that dtype)
                pass
            for fname, col in forms.items():
                st_a = random.getstate()
                try:
                    r = rx.rexpy.pdextract(col, seed=seed)
                except Exception as e_:   # noqa
                    r = 'exc:' + type(e_).__name__
                random.setstate(st_a)
                self.count('series_forms')
                if r != base:
                    fail('series-differs', 'list %r, %s column %r' % (base, fname, r), 'series-differs:' + fname + sk)
        # repeating an example changes nothing (without pruning options: with them the counts are meant to matter)
        if ex and 'min_strings_per_pattern' not in opts and 'max_patterns' not in opts:
            e2 = list(ex) + [rng.choice([s for s in ex])]
            r, e, _, _ = rx.run_extract(e2, opts, size, seed, 'list')
            if e is None and r != base:
                fail('repeat-example-changes', 'with one example repeated: %r vs %r' % (r, base),
                     'repeat-example-changes' + sk)
        # after an unrelated extraction (regex memo)
        rx.run_extract(['zz-%d' % rng.randint(0, 99), 'q.q', base[0] if base else 'x'], {}, None, None, 'list')
        r, e, _, _ = rx.run_extract(ex, opts, size, seed, 'list')
        if e is None and r != base:
            fail('history-dependent', 'after another extraction: %r vs %r' % (r, base), 'history-dependent' + sk)
        return F


PROP = C14
