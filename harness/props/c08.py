"""C08 - database discovery is sound and database verification notices violating rows (SQLite)."""
import contextlib
import datetime as dt
import io
import json
import os
import re
import shutil
import sqlite3
import tempfile

import core
import cxcommon as cx
import translate
from props.c07 import constraint_json, canon_constraints
from props.c02 import model_constraint

core.setup_repo_path()
from tdda.constraints import discover_db_table, verify_db_table  # noqa: E402
from tdda.constraints.base import DatasetConstraints  # noqa: E402
from tdda.constraints.db.drivers import database_connection, DatabaseHandler  # noqa: E402

DECLS = {'integer': 'int', 'real': 'real', 'text': 'string', 'varchar': 'string', 'boolean': 'bool', 'datetime': 'date'}
BASE_DECLS = list(DECLS)
# other declared types of the driver's table that mean the same (and have the same SQLite affinity)
SYNONYMS = {'integer': ['tinyint', 'smallint', 'bigint', 'int'], 'real': ['double', 'float'], 'text': ['char', 'nvarchar'],
            'boolean': ['bool'], 'datetime': ['timestamp', 'date']}
for _b, _l in SYNONYMS.items():
    for _s in _l:
        DECLS[_s] = DECLS[_b]
NAMES = ['c', 'Col x', 'sel"ect', 'select', 'ü', "it's", 'a-b', 'x]y', 'ba`ck', 'ORDER', 'q""q', '"', "'", 'a.b', 'n°', '%s',
         'tab\tbed', 'semi;colon', '--dash', 'min', 'type']
TEXTS = ['a', 'b', 'abc', "it's", 'back\\slash', 'ünï', '', ' sp ', 'a"b', 'x%y', '日本', 'A1', 'b2', "''", 'line\nbreak', "'",
         '"', "'; DROP TABLE t; --", '%s', '\\', "a'b'c", 'id-7', 'id-12', 'Zed', 'tab\t', '٣', ')', '( OR (', ' REGEXP ',
         'C:\\data\\a1', 'C:\\data\\b2', 'x\\d', '\\d+', 'a\\db']
DATES = ['2020-01-02 00:00:00', '1999-12-31 23:59:59', '2000-02-29 12:00:00', '1970-01-01 00:00:00', '2038-01-19 03:14:07',
         '2021-06-15 08:30:00']
FMT = '%Y-%m-%d %H:%M:%S'


def quiet():
    return contextlib.redirect_stderr(io.StringIO())


SHAPES = ['red', 'dark red', 'Red', '#ff0000', 'rgb(255,0,0)', 'r=1;g=0;b=0', '[1] red (dark)', 'red!', 'red?', '<red>', 'red/blue',
          'red & blue', '12', '1.5', '-3', '1e5', 'a_b', 'a-b', 'a.b', 'a:b', 'a@b', '50%', '$5', '~x', 'x*', 'p|q', '{k}', '"q"', "it's",
          'a,b', 'a;b', 'x y z', 'UPPER lower', '(1)', 'é', 'ab12cd']


def gen_table(rng):
    n = rng.choice([0, 1, 2, 3, 3, 5, 8, 12])
    if rng.random() < 0.06:
        n = rng.randint(21, 26)
    if rng.random() < 0.05:
        # free-form text: more than twenty different shapes of value in one column (every sequence of up to five runs of
        # letters / punctuation / blanks is a shape of its own for rexpy)
        import itertools
        tok = {'A': rng.choice(['ab', 'x', 'Qr']), 'P': rng.choice(['-', '.', '/']), 'S': ' '}
        shapes = [''.join(tok[x] for x in t) for n_ in (1, 2, 3, 4, 5) for t in itertools.product('APS', repeat=n_)
                  if all(t[i] != t[i + 1] for i in range(n_ - 1)) and t[0] != 'S' and t[-1] != 'S']
        k = rng.randint(24, 34)
        vals = rng.sample(shapes, k) + rng.sample(SHAPES, 3)
        k = len(vals)
        cols = [{'name': 'note', 'decl': rng.choice(['text', 'varchar']), 'cells': vals}]
        if rng.random() < 0.5:
            cols.append({'name': 'n', 'decl': 'integer', 'cells': [rng.randint(-5, 5) for _ in range(k)]})
        return {'nrows': k, 'cols': cols}
    cols = []
    used = set()
    for j in range(rng.randint(1, 4)):
        decl = rng.choice(BASE_DECLS)
        name = rng.choice(NAMES)
        if rng.random() < 0.5 or name.lower() in used:
            name = name + str(j)
        used.add(name.lower())
        nullp = rng.choice([0, 0, 0, 0.2, 0.5, 1.0])
        small = rng.random() < 0.4
        cells = []
        for _ in range(n):
            if rng.random() < nullp:
                cells.append(None)
            elif decl == 'integer':
                cells.append(rng.choice([0, 1, 2, -3]) if small else rng.choice([0, 1, -1, 7, -7, 2 ** 40, -2 ** 40, rng.randint(-50, 50)]))
            elif decl == 'real':
                cells.append(rng.choice([0.0, 1.0, 2.5, -2.5]) if small else rng.choice(cx.FLOAT_POOL))
            elif decl in ('text', 'varchar'):
                cells.append(rng.choice(['a', 'b', 'abc']) if small else rng.choice(TEXTS))
            elif decl == 'boolean':
                cells.append(rng.random() < 0.5)
            else:
                cells.append(rng.choice(DATES[:3]) if small else rng.choice(DATES))
        if decl in ('text', 'varchar') and rng.random() < 0.1:
            cells = [None if c is None else 'cat%02d' % rng.randint(0, 24) for c in cells]
        if decl in SYNONYMS and rng.random() < 0.3:
            decl = rng.choice(SYNONYMS[decl])
        cols.append({'name': name, 'decl': decl, 'cells': cells})
    return {'nrows': n, 'cols': cols}


def build(path, table, extra_row=None):
    if os.path.exists(path):
        os.remove(path)
    c = sqlite3.connect(path)
    c.execute('CREATE TABLE t (%s)' % ', '.join('"%s" %s' % (col['name'].replace('"', '""'), col['decl'])
                                                for col in table['cols']))
    ph = ','.join('?' * len(table['cols']))
    for i in range(table['nrows']):
        c.execute('INSERT INTO t VALUES (%s)' % ph, [col['cells'][i] for col in table['cols']])
    if extra_row is not None:
        c.execute('INSERT INTO t VALUES (%s)' % ph, extra_row)
    c.commit()
    c.close()


def model_col(col, extra=None):
    ftype = DECLS[col['decl']]
    cells = []
    for v in list(col['cells']) + ([extra[0]] if extra is not None else []):
        if v is None:
            cells.append(None)
        elif ftype == 'bool':
            cells.append({'b': bool(v)})
        elif ftype == 'int':
            cells.append({'i': int(v)})
        elif ftype == 'real':
            cells.append(cx.val_json(float(v)))
        elif ftype == 'string':
            cells.append({'s': v})
        else:
            cells.append({'d': cx.micros(dt.datetime.strptime(v, FMT))})
    return {'name': col['name'], 'ftype': ftype, 'cells': cells}


def as_bool_vals(ks, ftype):
    """the database reports MIN / MAX of a boolean column as 0 / 1"""
    if ftype != 'bool':
        return ks
    out = []
    for k in ks:
        k = dict(k)
        if k['k'] in ('min', 'max') and isinstance(k.get('v'), dict) and 'i' in k['v']:
            k['v'] = {'b': bool(k['v']['i'])}
        out.append(k)
    return out


def sort_allowed(ks):
    out = []
    for k in ks:
        k = dict(k)
        if k['k'] == 'allowed_values' and k.get('v') is not None:
            k['v'] = sorted(k['v'], key=lambda v: json.dumps(v, sort_keys=True))
        out.append(k)
    return out


class C08(core.Prop):
    pid = 'C08'
    lean_modules = ['TddaVerif.Props.C08']
    theorems = ['TddaVerif.Props.C08.' + t for t in [
        'lex_quote', 'ident_roundtrip', 'literal_roundtrip', 'quote_injective', 'rex_predicate_roundtrip',
        'tie_ident', 'tie_literal', 'tie_term', 'tie_statement', 'tie_types', 'discovered_constraints_verify',
        'violating_row_detected', 'below_min_detected', 'above_max_detected', 'shorter_string_detected',
        'longer_string_detected', 'new_category_detected', 'duplicate_detected', 'extra_null_detected',
        'unmatched_string_detected', 'wrong_sign_detected']]
    quick_n = 150
    thorough_n = 6000
    rule = ('cases: SQLite tables of 1..4 columns declared integer / real / text / varchar / boolean / datetime, 0..26 rows, '
            'null patterns none / some / all, text with quotes, backslashes, unicode, empty strings, SQL fragments and '
            'percent signs, column names with double / single quotes, brackets, backticks, spaces, keywords, unicode; '
            'discovery with rex off and on; then every applicable single-row perturbation (below min, above max, shorter, '
            'longer, new category, duplicate, extra null, unmatched string, wrong sign). non-trivial = >= 2 rows; distinct by content')
    trusted_base = [
        'SQLite itself (MIN / MAX / COUNT / LENGTH / DISTINCT, its tokenizer, type affinity) is not modelled: the aggregates '
        'are tied to the reference aggregates of the shared model by running discovery and verification of every generated '
        'table through both; the tokenizer model (a doubled quote stands for one) is tied by letting SQLite read every '
        'generated quoted name and literal back',
        'harness/translate.py regenerates Generated/Sql.lean (typeMap, quoting formats, REGEXP statement pieces) from the '
        'source text of tdda/constraints/db/drivers.py (ast)',
        'only the sqlite branches are exercised; postgres / mysql / sqlserver / mongodb need servers that are not available',
        'REGEXP is the Python callback re.match(expr, item) registered by database_connection_sqlite; it enters the model as a table',
    ]

    def __init__(self, tier, seed):
        super().__init__(tier, seed)
        self.tmp = tempfile.mkdtemp(prefix='c08_')
        import atexit
        atexit.register(lambda: shutil.rmtree(self.tmp, ignore_errors=True))

    def translate(self):
        return translate.regenerate(['Sql'])

    def corpus(self):
        return [
            {'table': {'nrows': 2, 'cols': [{'name': 'sel"ect', 'decl': 'text', 'cells': ["it's", "''"]}]}, 'rex': True, 'pseed': 1},
            {'table': {'nrows': 3, 'cols': [{'name': 'n', 'decl': 'text', 'cells': [None, None, None]}]}, 'rex': True, 'pseed': 2},
            {'table': {'nrows': 0, 'cols': [{'name': 'e', 'decl': 'varchar', 'cells': []},
                                            {'name': 'i', 'decl': 'integer', 'cells': []}]}, 'rex': True, 'pseed': 3},
            {'table': {'nrows': 2, 'cols': [{'name': 'b', 'decl': 'boolean', 'cells': [True, True]},
                                            {'name': 'd', 'decl': 'datetime', 'cells': DATES[:2]}]}, 'rex': False, 'pseed': 4},
        ]

    def gen_case(self, rng, i):
        return {'table': gen_table(rng), 'rex': rng.random() < 0.5, 'pseed': rng.randrange(10 ** 6)}

    def nontrivial_key(self, case):
        for c in case['table']['cols']:
            self.count('decl_' + c['decl'])
        if case['rex']:
            self.count('rex')
        return json.dumps(case, sort_keys=True) if case['table']['nrows'] >= 2 else None

    # -------------------------------------------------------------- running the real code
    def _run(self, case):
        key = json.dumps(case, sort_keys=True)
        if getattr(self, '_rk', None) == key:
            return self._rv
        r = {'disc_exc': None, 'ver_exc': None, 'cons': None, 'verif': None, 'perturbed': []}
        path = os.path.join(self.tmp, 't.sqlite3')
        tdda = os.path.join(self.tmp, 't.tdda')
        build(path, case['table'])
        try:
            with quiet():
                db = database_connection(dbtype='sqlite', db=path)
                cons = discover_db_table('sqlite', db, 't', inc_rex=case['rex'], seed=7)
            r['cons'] = cons
        except BaseException as e:   # noqa  (sys.exit included)
            r['disc_exc'] = e
            self._rk, self._rv = key, r
            return r
        if cons is not None:
            with open(tdda, 'w') as f:
                f.write(cons.to_json())
            r['loaded'] = DatasetConstraints(loadpath=tdda)
            try:
                with quiet():
                    r['verif'] = verify_db_table('sqlite', db, 't', tdda, testing=True)
            except BaseException as e:   # noqa
                r['ver_exc'] = e
            # perturbations
            import random
            rng = random.Random(case['pseed'])
            for (ci, kind, value) in self._perturbations(case, cons, rng):
                row = [None if case['table']['nrows'] == 0 else c['cells'][0] for c in case['table']['cols']]
                row[ci] = value
                p = {'col': ci, 'kind': kind, 'value': value, 'row': row, 'verif': None, 'exc': None}
                same_connection = rng.random() < 0.5
                try:
                    if same_connection:
                        # the row arrives while a connection that has already verified the table is still in use
                        build(path, case['table'])
                        with quiet():
                            db2 = database_connection(dbtype='sqlite', db=path)
                            verify_db_table('sqlite', db2, 't', tdda, testing=True)
                        c2 = sqlite3.connect(path)
                        c2.execute('INSERT INTO t VALUES (%s)' % ','.join('?' * len(row)), row)
                        c2.commit()
                        c2.close()
                        p['same_connection'] = True
                    else:
                        build(path, case['table'], extra_row=row)
                        with quiet():
                            db2 = database_connection(dbtype='sqlite', db=path)
                    with quiet():
                        p['verif'] = verify_db_table('sqlite', db2, 't', tdda, testing=True)
                except BaseException as e:   # noqa
                    p['exc'] = e
                r['perturbed'].append(p)
        self._rk, self._rv = key, r
        return r

    def _perturbations(self, case, cons, rng):
        """every applicable single-row perturbation: (column index, constraint kind broken, new value)"""
        out = []
        for ci, col in enumerate(case['table']['cols']):
            if col['name'] not in cons.fields:
                continue
            ks = {k: c.value for k, c in cons.fields[col['name']].constraints.items()}
            ftype = DECLS[col['decl']]
            nn = [c for c in col['cells'] if c is not None]
            if 'min' in ks:
                m = ks['min']
                if ftype == 'int':
                    out.append((ci, 'min', m - 1))
                elif ftype == 'real':
                    out.append((ci, 'min', float(m) - 1.0))
                elif ftype == 'bool' and m:
                    out.append((ci, 'min', False))
                elif ftype == 'date':
                    out.append((ci, 'min', (m - dt.timedelta(days=1)).strftime(FMT)))
            if 'max' in ks:
                M = ks['max']
                if ftype == 'int':
                    out.append((ci, 'max', M + 1))
                elif ftype == 'real':
                    out.append((ci, 'max', float(M) + 1.0))
                elif ftype == 'bool' and not M:
                    out.append((ci, 'max', True))
                elif ftype == 'date':
                    out.append((ci, 'max', (M + dt.timedelta(days=1)).strftime(FMT)))
            if ks.get('min_length'):
                out.append((ci, 'min_length', 'x' * (ks['min_length'] - 1)))
            if 'max_length' in ks:
                out.append((ci, 'max_length', 'x' * (ks['max_length'] + 1)))
            if 'allowed_values' in ks:
                out.append((ci, 'allowed_values', 'new-' + 'z' * rng.randint(0, 3)))
            if ks.get('no_duplicates') and nn:
                out.append((ci, 'no_duplicates', rng.choice(nn)))
            if 'max_nulls' in ks:
                out.append((ci, 'max_nulls', None))
            if 'rex' in ks and ftype == 'string':
                cands = ['\x01\x02', '@@@@ @@@@', 'ZZZZ 9999 !!!!', 'no such value: §§', '']
                for s in cands:
                    if not any(re.match(r, s) for r in ks['rex']):
                        out.append((ci, 'rex', s))
                        break
            if ks.get('sign') in ('positive', 'non-negative') and ftype in ('int', 'real'):
                out.append((ci, 'sign', -1 if ftype == 'int' else -1.0))
            if ks.get('sign') in ('negative', 'non-positive', 'zero') and ftype in ('int', 'real'):
                out.append((ci, 'sign', 1 if ftype == 'int' else 1.0))
        rng.shuffle(out)
        return out[:4]

    # -------------------------------------------------------------- correspondence
    def _handler(self):
        with quiet():
            dbc = database_connection(dbtype='sqlite', db=':memory:')
        return DatabaseHandler('sqlite', dbc), dbc.connection

    def _verify_op(self, case, loaded, extra_row):
        frame = [model_col(c, None if extra_row is None else [extra_row[i]]) for i, c in enumerate(case['table']['cols'])]
        names = [c['name'] for c in case['table']['cols']]
        rexes, strings = [], set()
        fields = []
        for name, fc in loaded.fields.items():
            for k, c in fc.constraints.items():
                if k == 'rex' and c.value:
                    for rx in c.value:
                        if rx not in rexes:
                            rexes.append(rx)
        for i, col in enumerate(case['table']['cols']):
            if DECLS[col['decl']] == 'string':
                strings.update(v for v in col['cells'] if v is not None)
                if extra_row is not None and extra_row[i] is not None:
                    strings.add(extra_row[i])
        ids = {r: i for i, r in enumerate(rexes)}
        for name, fc in loaded.fields.items():
            ks = [model_constraint({'kind': k, 'value': c.value, 'precision': getattr(c, 'precision', None)}, ids)
                  for k, c in fc.constraints.items()]
            fields.append([name, ks])
        rx = [[i, s, re.match(r, s) is not None] for i, r in enumerate(rexes) for s in sorted(strings)]
        cfg = {'eps': [0, 1], 'strict': True, 'rx': rx}
        return {'op': 'cx.verify', 'cfg': cfg, 'frame': frame, 'constraints': fields, 'detect': False}, fields

    def model_ops(self, case):
        r = self._run(case)
        ops = []
        dbh = self._handler()[0]
        for col in case['table']['cols']:
            ops.append({'op': 'sql.quote_ident', 's': col['name']})
            ops.append({'op': 'sql.lex', 'q': '"', 'text': dbh.quoted(col['name'])})
        if r['disc_exc'] is not None or r['cons'] is None:
            return ops
        cons = r['cons']
        for col in case['table']['cols']:
            mc = model_col(col)
            rex_ids = []
            if col['name'] in cons.fields and 'rex' in cons.fields[col['name']].constraints:
                rexes = cons.fields[col['name']].constraints['rex'].value
                rex_ids = list(range(len(rexes)))
                for rx in rexes:
                    ops.append({'op': 'sql.literal', 's': rx})
                    ops.append({'op': 'sql.lex', 'q': "'", 'text': dbh.string_literal(rx)})
                if rexes:
                    ops.append({'op': 'sql.rex_sql', 'table': 't', 'name': col['name'], 'rexes': list(rexes)})
            ops.append({'op': 'cx.discover', 'col': mc, 'nrec': case['table']['nrows'], 'inc_rex': case['rex'],
                        'rex_ids': rex_ids})
        if r['ver_exc'] is None and r['verif'] is not None:
            ops.append(self._verify_op(case, r['loaded'], None)[0])
        for p in r['perturbed']:
            if p['exc'] is None:
                ops.append(self._verify_op(case, r['loaded'], p['row'])[0])
        if getattr(self, '_counted', None) != id(case):
            self._counted = id(case)
            for o in ops:
                self.count('op_' + o['op'])
        return ops

    def impl_outputs(self, case):
        r = self._run(case)
        out = []
        dbh, mem = self._handler()
        for col in case['table']['cols']:
            q = dbh.quoted(col['name'])
            out.append(q)
            try:
                cur = mem.execute('SELECT 1 AS %s' % q)
                out.append([cur.description[0][0], ''])
            except sqlite3.Error as e:
                out.append({'sqlite-rejects': str(e)[:60]})
        if r['disc_exc'] is not None or r['cons'] is None:
            return out
        cons = r['cons']

        for col in case['table']['cols']:
            name = col['name']
            if name in cons.fields and 'rex' in cons.fields[name].constraints:
                rexes = cons.fields[name].constraints['rex'].value
                for rx in rexes:
                    lit = dbh.string_literal(rx)
                    out.append(lit)
                    try:
                        out.append([mem.execute('SELECT %s' % lit).fetchall()[0][0], ''])
                    except sqlite3.Error as e:
                        out.append({'sqlite-rejects': str(e)[:60]})
                if rexes:
                    seen = []
                    spy = self._handler()[0]
                    spy.instance.execute_scalar = lambda sql: (seen.append(sql), 0)[1]
                    spy.get_database_rex_match('t', name, rexes)
                    out.append(seen[-1] if seen else None)
            ftype = DECLS[col['decl']]
            if name not in cons.fields:
                out.append(None)
            else:
                ks = [constraint_json(c) for c in cons.fields[name].constraints.values()]
                out.append(sort_allowed(as_bool_vals(canon_constraints(ks), ftype)))
        for v, row in [(r['verif'] if r['ver_exc'] is None else None, None)] + \
                      [(p['verif'] if p['exc'] is None else None, p['row']) for p in r['perturbed']]:
            if v is None:
                continue
            fields = [[name, {k: bool(x) for k, x in fr.items()}, fr.passes, fr.failures] for name, fr in v.fields.items()]
            out.append({'passes': v.passes, 'failures': v.failures, 'fields': fields})
        return out

    def canon_model(self, case, outs):
        r = self._run(case)
        ops = self.model_ops(case)
        res = []
        vi = 0
        for op, o in zip(ops, outs):
            if 'ok' not in o:
                res.append({'exc': o.get('exc')})
                continue
            v = o['ok']
            if op['op'] == 'cx.discover':
                v = None if v is None else sort_allowed(canon_constraints(v))
            elif op['op'] == 'cx.verify':
                fields = []
                for (name, ks), f in zip(op['constraints'], v['fields']):
                    fields.append([f[0], {k['k'] if k['k'] != 'type' else 'type': b for k, b in zip(ks, f[1])}, f[2], f[3]])
                v = {'passes': v['passes'], 'failures': v['failures'], 'fields': fields}
            res.append(v)
        return res

    # -------------------------------------------------------------- the property on the real code
    def oracle(self, case):
        F = []
        fail = lambda clause, detail, key=None: F.append(core.Failure(clause, case, detail, key or clause))
        r = self._run(case)
        decls = sorted({c['decl'] for c in case['table']['cols']})
        if r['disc_exc'] is not None:
            e = r['disc_exc']
            fail('discover-raises', '%s: %s' % (type(e).__name__, str(e)[:150]), 'discover-raises:%s' % type(e).__name__)
            return F
        if r['cons'] is None:
            fail('discover-none', 'no constraints discovered for a table with recognised columns (%s)' % decls)
            return F
        if r['ver_exc'] is not None:
            e = r['ver_exc']
            fail('verify-raises', '%s: %s' % (type(e).__name__, str(e)[:150]), 'verify-raises:%s' % type(e).__name__)
            return F
        v = r['verif']
        if v.failures:
            ty = {c['name']: c['decl'] for c in case['table']['cols']}
            bad = sorted({'%s:%s' % (ty.get(f, '?'), k) for f, d in v.fields.items() for k, ok in d.items() if not ok})
            fail('own-constraints-fail', '%d failures: %s' % (v.failures, bad), 'own-constraints-fail:' + ','.join(bad))
        for p in r['perturbed']:
            col = case['table']['cols'][p['col']]
            self.count('perturb_' + p['kind'])
            if p['exc'] is not None:
                e = p['exc']
                fail('verify-raises', 'after adding row %r: %s: %s' % (p['row'], type(e).__name__, str(e)[:120]),
                     'verify-raises:%s:perturbed' % type(e).__name__)
                continue
            got = p['verif'].fields.get(col['name'], {}).get(p['kind'])
            if got is not False:
                fail('perturbation-missed', 'column %r (%s): added %r to break %s, verification reports %r'
                     % (col['name'], col['decl'], p['value'], p['kind'], got),
                     'perturbation-missed:%s:%s' % (col['decl'], p['kind']))
        return F


PROP = C08
