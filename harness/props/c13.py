"""C13 - every expression rexpy returns compiles and matches at least one example."""
import json
import re

import core
import rxcommon as rx
import translate

core.setup_repo_path()


class C13(core.Prop):
    pid = 'C13'
    lean_modules = ['TddaVerif.Props.C13']
    theorems = ['TddaVerif.Props.C13.' + t for t in [
        'each_pattern_has_witness', 'count_le_distinct', 'none_for_empty', 'pruning_subset', 'sampled_pattern_has_witness',
        'anchored', 'each_pattern_has_witness_every_size', 'sampled_pattern_has_witness_every_size']]
    quick_n = 1500
    thorough_n = 40000
    rule = ('cases: as C03 (example multisets over the exotic alphabet x option subsets x dialects x Size x seeds) plus '
            'max_patterns and min_strings_per_pattern settings, long strings with > 99 coarse runs, and the empty input; '
            'each case is extracted untagged and tagged. non-trivial = >= 2 returned expressions; distinct by content')
    trusted_base = [
        'as C03: hand-written Lean model of the batch path tied by correspondence on every non-sampling case (here also '
        'with max_patterns / min_strings_per_pattern and both tag settings); the witness theorem also holds under sampling '
        '(sampled_pattern_has_witness over the loop model that the C03 check ties to the code); count / no-duplicates / '
        'compilation under sampling are decided by the oracle',
        'theorems speak about the pattern AST; the rendered text is checked with re.compile / re.fullmatch by the oracle',
        'validity of an expression is decided by re.compile, matching by re.fullmatch (CPython re)',
    ]

    def corpus(self):
        return [
            {'examples': [], 'opts': {}, 'size': None, 'seed': None, 'form': 'list', 'prune': {}},
            {'examples': ['a-' * 60], 'opts': {}, 'size': None, 'seed': None, 'form': 'list', 'prune': {}},
            {'examples': ['a_b', 'c_d', 'e.f'], 'opts': {'extra_letters': '_.', 'tag': True}, 'size': None, 'seed': None,
             'form': 'list', 'prune': {}},
        ]

    def gen_case(self, rng, i):
        prune = {}
        if rng.random() < 0.25:
            prune['max_patterns'] = rng.randint(1, 3)
        if rng.random() < 0.25:
            prune['min_strings_per_pattern'] = rng.randint(1, 3)
        ex = rx.gen_examples(rng)
        if rng.random() < 0.03:
            ex.append(''.join(rng.choice('ab') + rng.choice('-.') for _ in range(rng.randint(50, 70))))
        if rng.random() < 0.03:
            ex = []
        opts = rx.gen_opts(rng)
        opts.pop('tag', None)
        return {'examples': ex, 'opts': opts, 'size': rx.gen_size(rng), 'seed': rng.choice([None, 1, 7]),
                'form': rng.choice(['list', 'list', 'dict', 'dict0']), 'prune': prune}

    def translate(self):
        return translate.regenerate(['Rexpy'])

    def _seed(self, case):
        return case['seed'] if case['seed'] is not None else 99

    def _variants(self, case):
        return [dict(case['opts'], tag=tag, **case['prune']) for tag in (False, True)]

    def _recorded(self, case):
        key = json.dumps(case, sort_keys=True)
        if getattr(self, '_rk', None) != key:
            self._rk = key
            self._rv = [rx.run_extract_recorded(case['examples'], o, case['size'], self._seed(case), case['form'])
                        for o in self._variants(case)]
        return self._rv

    def model_ops(self, case):
        if not rx.modelled(case['examples'], case['opts']):
            return []
        if rx.nosampling(case['examples'], case['opts'], case['size']):
            return [rx.model_extract_op(case['examples'], o, case['form'], case.get('size')) for o in self._variants(case)]
        ops = []
        for o, (res, exc, picks) in zip(self._variants(case), self._recorded(case)):
            if exc is not None or any(not isinstance(x, list) for p in picks for x in p):
                return []
            ops.append(rx.model_sampled_op(case['examples'], o, case['size'], picks, case['form']))
        self.count('sampled_traces')
        return ops

    def impl_outputs(self, case):
        if rx.nosampling(case['examples'], case['opts'], case['size']):
            return [rx.impl_rex(case['examples'], o, case['size'], self._seed(case), case['form']) for o in self._variants(case)]
        return [{'exc': type(exc).__name__} if exc is not None else {'rex': list(res)} for res, exc, _ in self._recorded(case)]

    def canon_model(self, case, outs):
        return rx.canon_rex(outs)

    def nontrivial_key(self, case):
        return json.dumps(case, sort_keys=True) if len(set(case['examples'])) >= 2 else None

    def oracle(self, case):
        F = []
        fail = lambda clause, detail, key=None: F.append(core.Failure(clause, case, detail, key or clause))
        results = {}
        for tag in (False, True):
            opts = dict(case['opts'], tag=tag, **case['prune'])
            res, exc, _, _ = rx.run_extract(case['examples'], opts, case['size'],
                                            case['seed'] if case['seed'] is not None else 99, case['form'])
            if exc is not None:
                fail('raises', 'tag=%s: %s: %s' % (tag, type(exc).__name__, str(exc)[:150]), 'raises:' + type(exc).__name__)
                return F
            results[tag] = res
        kept = rx.kept_examples(case['examples'], case['opts'])
        for tag, res in results.items():
            if not case['examples'] and res:
                fail('nonempty-for-empty-input', '%r returned for no examples' % res)
            if len(res) != len(set(res)):
                fail('duplicate-expression', 'tag=%s: %r' % (tag, res))
            if len(res) > len(set(kept)):
                fail('more-expressions-than-examples', 'tag=%s: %d expressions for %d distinct examples'
                     % (tag, len(res), len(set(kept))))
            for r in res:
                try:
                    cr = re.compile(r, rx.FLAGS)
                except re.error as e:
                    fail('does-not-compile', 'tag=%s: %r: %s' % (tag, r, e))
                    continue
                # anchored: starts with ^ and ends with a $ that is not escaped (an even number of backslashes before it)
                body = r[:-1] if r.endswith('$') else r
                nback = len(body) - len(body.rstrip('\\'))
                if not (r.startswith('^') and r.endswith('$') and nback % 2 == 0):
                    fail('not-anchored', 'tag=%s: %r' % (tag, r))
                if not any(re.fullmatch(cr, s) for s in case['examples'] if s is not None):
                    dialect = case['opts'].get('dialect', 'portable')
                    key = 'matches-no-example'
                    def ascii_digits(x):
                        return ''.join('5' if (c.isdecimal() and not '0' <= c <= '9') else c for c in x)
                    if dialect in ('portable', 'grep') and '[0-9]' in r and any(
                            ascii_digits(s) != s and re.fullmatch(cr, ascii_digits(s)) for s in kept):
                        # cause established: the expression matches an example once its non-ASCII decimal digits are
                        # replaced by ASCII ones (the C03 finding: the digit class is rendered [0-9])
                        key += ':non-ascii-decimal-digit:' + dialect
                    fail('matches-no-example', 'tag=%s: %r matches none of %r' % (tag, r, case['examples'][:6]), key)
        # tagging changes only the grouping
        a, b = results[False], results[True]
        if len(a) != len(b):
            fail('tag-changes-count', 'untagged %r tagged %r' % (a, b))
        else:
            for ra, rb in zip(a, b):
                try:
                    ca, cb = re.compile(ra, rx.FLAGS), re.compile(rb, rx.FLAGS)
                except re.error:
                    continue
                for s in case['examples']:
                    if s is None:
                        continue
                    if (re.fullmatch(ca, s) is None) != (re.fullmatch(cb, s) is None):
                        fail('tag-changes-matches', '%r vs %r on %r' % (ra, rb, s))
                        break
        return F


PROP = C13
