"""C02 - verification verdicts equal the documented meaning of each constraint."""
import contextlib
import datetime as dt
import io
import json
import math
import re
from fractions import Fraction

import core
import cxcommon as cx

core.setup_repo_path()
import numpy as np  # noqa: E402
import pandas as pd  # noqa: E402
from tdda.constraints import verify_df, detect_df  # noqa: E402

MODEL_FAMS = [f for f in cx.FAMILIES if f not in ('datetime-tz', 'str', 'category', 'category-unused') + cx.OPT_IN]
SIGNS = ['positive', 'non-negative', 'zero', 'non-positive', 'negative', 'null']
TYPES = ['bool', 'int', 'real', 'string', 'date']
EPS = [Fraction(0), Fraction(1, 2), Fraction(1, 4), Fraction(1, 8)]
REX_POOL = [r'^[a-z]+$', r'^[A-Za-z]+$', r'^\d+$', r'^.*$', r'^cat\d{2}$', r'^[a-z]{1,3}$', r'^id\-\d+$', r'^$', r'^.$',
            r'^[a-z]+\d$',
            # expressions that are not anchored at the end (the documented meaning is a match from the start of the value)
            r'^#', r'^a', r'^[a-z]', r'^a|b$', r'^id', r'a', r'^\d']


def quiet():
    return contextlib.redirect_stderr(io.StringIO())


def step(v, delta, ftype):
    """a value one step inside/outside a bound"""
    if ftype == 'int':
        return v + delta
    if ftype == 'real':
        return v + delta * 0.125
    if ftype == 'date':
        return v + dt.timedelta(microseconds=delta)
    if ftype == 'bool':
        return v
    return v


def gen_constraints(rng, col):
    """boundary-directed constraint set for one column: list of dicts {kind, value[, precision]}"""
    ftype = cx.col_ftype(col)
    nn = [c for c in col['cells'] if c is not None and not (isinstance(c, float) and (math.isnan(c) or math.isinf(c)))]
    ks = []
    kinds = rng.sample(['type', 'min', 'max', 'min_length', 'max_length', 'sign', 'max_nulls', 'no_duplicates',
                        'allowed_values', 'rex'], rng.randint(1, 5))
    for kind in kinds:
        if rng.random() < 0.07:
            ks.append({'kind': kind, 'value': None})
            continue
        if kind == 'type':
            r = rng.random()
            if ftype == 'real' and r < 0.45:
                v = rng.choice(['int', 'bool', ['int', 'bool'], ['int', 'string']])
            elif r < 0.5:
                v = ftype if ftype != 'other' else 'string'
            elif r < 0.8:
                v = rng.choice(TYPES)
            else:
                v = rng.sample(TYPES, 2)
            ks.append({'kind': 'type', 'value': v})
        elif kind in ('min', 'max'):
            if ftype in ('int', 'real', 'date') and nn:
                base = min(nn) if kind == 'min' else max(nn)
                if ftype == 'date' and not isinstance(base, dt.datetime):
                    base = dt.datetime(base.year, base.month, base.day)
                v = step(base, rng.choice([-1, 0, 0, 1]), ftype)
                if ftype == 'real' and rng.random() < 0.3:
                    v = base * rng.choice([0.5, 1.5, 1.25, 0.75, 2.0])
                if ftype == 'real' and rng.random() < 0.35:
                    # a bound whose fuzzy band edge may fall among the values
                    v = rng.choice([-128.0, -64.0, -8.0, 8.0, 64.0, 128.0])
                if ftype == 'int' and rng.random() < 0.3:
                    v = int(base * rng.choice([0.5, 1.5, 2]))
                if ftype in ('int', 'real') and rng.random() < 0.25 and abs(base) < 2 ** 30:
                    # the extreme value lies inside the tolerance band of the bound but outside the band one gets by applying
                    # epsilon to the data instead of to the bound (v(1-e) <= m < v/(1+e) and its mirror images, for
                    # e = 1/2, 1/4, 1/8; dyadic multipliers keep the arithmetic exact)
                    # (and within a hundredth of the bound: 1 +- 1/256, 1 +- 1/128 - the tolerance of a default that is not 0)
                    v = base * rng.choice([2.0, 1.75, 1.3125, 1.140625, 0.5, 0.625, 0.75, 0.78125, 0.875, 0.8828125,
                                           1.00390625, 0.99609375, 1.0078125, 0.9921875, 1.00390625, 0.99609375])
                    if ftype == 'int' and v == int(v) and rng.random() < 0.7:
                        v = int(v)
                if rng.random() < 0.1:
                    v = rng.choice([0, 0.0, 1, -1.5])
                distinct = sorted(set(nn))
                if len(distinct) >= 2 and rng.random() < 0.25:
                    # the bound sits exactly on a record while another record violates it (what open / closed / fuzzy
                    # mean for the record on the bound)
                    v = distinct[1] if kind == 'min' else distinct[-2]
                    if ftype == 'date' and not isinstance(v, dt.datetime):
                        v = dt.datetime(v.year, v.month, v.day)
            else:
                v = rng.choice([0, 1, -1, 2.5, 'abc', dt.datetime(2020, 1, 1)])
            k = {'kind': kind, 'value': v}
            if rng.random() < 0.6:
                k['precision'] = rng.choice(['closed', 'open', 'fuzzy'])
            ks.append(k)
        elif kind in ('min_length', 'max_length'):
            if ftype == 'string' and nn:
                L = [len(s) for s in nn]
                base = min(L) if kind == 'min_length' else max(L)
                v = max(0, base + rng.choice([-1, 0, 0, 1]))
            else:
                v = rng.randint(0, 4)
            ks.append({'kind': kind, 'value': v})
        elif kind == 'sign':
            ks.append({'kind': 'sign', 'value': rng.choice(SIGNS)})
        elif kind == 'max_nulls':
            nnull = len(col['cells']) - len([c for c in col['cells'] if c is not None])
            ks.append({'kind': 'max_nulls', 'value': max(0, nnull + rng.choice([-1, 0, 0, 1]))})
        elif kind == 'no_duplicates':
            ks.append({'kind': 'no_duplicates', 'value': rng.choice([True, True, True, False])})
        elif kind == 'allowed_values':
            if ftype == 'string':
                vals = sorted(set(nn))
                if vals and rng.random() < 0.5:
                    vals = vals[:-1] if rng.random() < 0.6 else vals[1:]
                if rng.random() < 0.3:
                    vals = vals + ['zzz']
                ks.append({'kind': 'allowed_values', 'value': vals})
            else:
                ks.append({'kind': 'allowed_values', 'value': rng.choice([['a', 'b'], [0, 1], [True]])})
        else:
            pool = REX_POOL
            if ftype == 'string' and any(isinstance(s_, str) and '\n' in s_ for s_ in nn) and rng.random() < 0.6:
                # values with line breaks: expressions whose dot has to cross them (matching is done with DOTALL)
                pool = [r'^.*$', r'^.+$', r'^.$', r'^[a-z]+.[a-z]+$', r'^.*k$', r'^[a-z]+$']
            ks.append({'kind': 'rex', 'value': [rng.choice(pool) for _ in range(rng.randint(1, 2))]})
    # one constraint per kind (dict keyed by kind)
    seen = set()
    out = []
    for k in ks:
        if k['kind'] not in seen:
            seen.add(k['kind'])
            out.append(k)
    # well-formedness of the documented format: date-valued bounds are written as strings and are only read
    # back as dates when the field's type constraint is 'date'; conversely a 'date' field has date (or null) bounds
    has_date_bound = any(k['kind'] in ('min', 'max') and isinstance(k['value'], (dt.datetime, dt.date)) for k in out)
    tk = [k for k in out if k['kind'] == 'type']
    if has_date_bound:
        if tk:
            tk[0]['value'] = 'date'
        else:
            out.insert(0, {'kind': 'type', 'value': 'date'})
    elif tk and tk[0]['value'] == 'date':
        for k in out:
            if k['kind'] in ('min', 'max') and k['value'] is not None:
                k['value'] = rng.choice(cx.DATE_POOL)
    return out


def tdda_dict(per_field, frame=None):
    """constraints in the documented .tdda dictionary form. A date bound for a timezone-aware column is written with
    the UTC offset of that wall-clock time in the column's zone (a naive bound on an aware column has no documented
    meaning: the two cannot be compared)"""
    fams = {c['name']: c['fam'] for c in frame['cols']} if frame else {}
    fields = {}
    for name, ks in per_field.items():
        d = {}
        for k in ks:
            v = k['value']
            if isinstance(v, dt.datetime) and fams.get(name) == 'datetime-tz':
                v = str(pd.Timestamp(v, tz='Europe/London'))
            elif isinstance(v, (dt.datetime, dt.date)):
                v = str(v)
            if k['kind'] in ('min', 'max') and k.get('precision'):
                d[k['kind']] = {'value': v, 'precision': k['precision']}
            else:
                d[k['kind']] = v
        fields[name] = d
    return {'fields': fields}


def model_constraint(k, rex_ids):
    kind, v = k['kind'], k['value']
    if kind == 'type':
        return {'k': 'type', 'v': None if v is None else ([v] if isinstance(v, str) else list(v))}
    if kind in ('min', 'max'):
        return {'k': kind, 'v': None if v is None else cx.val_json(v), 'p': k.get('precision')}
    if kind in ('min_length', 'max_length', 'max_nulls', 'sign', 'no_duplicates'):
        return {'k': kind, 'v': v}
    if kind == 'allowed_values':
        return {'k': kind, 'v': None if v is None else [cx.val_json(x) for x in v]}
    if kind == 'rex':
        return {'k': 'rex', 'v': None if v is None else [rex_ids[r] for r in v]}
    raise ValueError(kind)


# ---------------------------------------------------------------------------
# the documented meaning, evaluated on the cells (never through calc_*)

def num(v):
    if isinstance(v, bool):
        return Fraction(int(v))
    if isinstance(v, (int, np.integer)):
        return Fraction(int(v))
    if isinstance(v, (float, np.floating)):
        if math.isinf(v):
            return v
        return Fraction(float(v))
    return None


def coarse(v):
    if isinstance(v, (bool, int, float, np.integer, np.floating)):
        return 'number'
    if isinstance(v, str):
        return 'string'
    if isinstance(v, (dt.datetime, dt.date)):
        return 'date'
    return 'other'


def as_dt(v):
    if isinstance(v, dt.datetime):
        return v.replace(tzinfo=None) if False else v
    if isinstance(v, dt.date):
        return dt.datetime(v.year, v.month, v.day)
    return v


def sat(col, present, k, eps, strict):
    """True/False per the documentation; None = the statement does not say (outside the documented domain)"""
    if not present:
        return False
    kind, v = k['kind'], k['value']
    if v is None:
        return True
    ftype = cx.col_ftype(col)
    nn = [c for c in col['cells'] if c is not None and not (isinstance(c, float) and math.isnan(c))]
    if kind == 'type':
        allowed = [v] if isinstance(v, str) else list(v)
        if ftype in allowed:
            return True
        if strict:
            return False
        if ftype == 'real' and ('int' in allowed or 'bool' in allowed):
            return all(float(x).is_integer() for x in nn if not math.isinf(x))  and not any(math.isinf(x) for x in nn)
        if ftype == 'string' and 'bool' in allowed:
            return all(isinstance(x, bool) for x in nn)
        return False
    if kind in ('min', 'max'):
        if not nn:
            return True
        p = k.get('precision') or 'fuzzy'
        if coarse(v) != coarse(nn[0]):
            return False
        if coarse(v) == 'date':
            b = as_dt(v)
            xs = [as_dt(x) for x in nn]
            return all(x >= b for x in xs) if kind == 'min' else all(x <= b for x in xs)
        if coarse(v) == 'string':
            if p == 'open':
                return all(x > v for x in nn) if kind == 'min' else all(x < v for x in nn)
            return all(x >= v for x in nn) if kind == 'min' else all(x <= v for x in nn)
        b = num(v)
        xs = [num(x) for x in nn]
        if p == 'closed':
            return all(x >= b for x in xs) if kind == 'min' else all(x <= b for x in xs)
        if p == 'open':
            return all(x > b for x in xs) if kind == 'min' else all(x < b for x in xs)
        tol = eps * abs(b)
        return all(x >= b - tol for x in xs) if kind == 'min' else all(x <= b + tol for x in xs)
    if kind in ('min_length', 'max_length'):
        if ftype != 'string':
            return False
        L = [len(x) for x in nn]
        return all(l >= v for l in L) if kind == 'min_length' else all(l <= v for l in L)
    if kind == 'sign':
        if not nn:
            return True
        if coarse(nn[0]) != 'number':
            return False
        xs = [num(x) for x in nn]
        return {'positive': all(x > 0 for x in xs), 'non-negative': all(x >= 0 for x in xs),
                'zero': all(x == 0 for x in xs), 'non-positive': all(x <= 0 for x in xs),
                'negative': all(x < 0 for x in xs), 'null': False}[v]
    if kind == 'max_nulls':
        return len(col['cells']) - len(nn) <= v
    if kind == 'no_duplicates':
        if v is False:
            return True
        return len(set(nn)) == len(nn)
    if kind == 'allowed_values':
        return all(any(x == a and coarse(x) == coarse(a) for a in v) for x in nn)
    if kind == 'rex':
        if ftype != 'string':
            return False
        crs = [re.compile(r, cx.RE_FLAGS) for r in v]
        return all(any(re.match(cr, x) for cr in crs) for x in nn)
    raise ValueError(kind)


class C02(core.Prop):
    pid = 'C02'
    lean_modules = ['TddaVerif.Props.C02']
    theorems = ['TddaVerif.Props.C02.' + t for t in ['verify_eq_spec', 'verify_flag_irrelevant', 'missing_field_fails',
        'null_value_passes', 'fuzzDown_eq', 'fuzzUp_eq', 'totals_exact', 'verdicts_eq', 'null_constraint_inert', 'mark_determines_verdict', 'report_shows', 'tie_marks_distinct']]
    quick_n = 800
    thorough_n = 30000
    rule = ('cases: frames of 1..3 columns x 0..10 rows over every recognised family, with a boundary-directed '
            'constraint set per field (bounds on, one step inside and one step outside the column statistic; every '
            'precision; epsilon in {0, 1/2, 1/4, 1/8} (exact in binary floating point); positive / negative / zero '
            'bounds; type lists; sign classes; null-valued constraints; length / null-count / category boundaries; '
            'rex), constraints on a missing field, strict and sloppy typing. non-trivial = at least one active '
            'constraint on a column with >= 1 non-null cell; distinct by content')
    trusted_base = [
        'pandas aggregates are tied to the reference aggregates by the cx.calc op (C07 check); floats are exact '
        'rationals in the model, epsilon and bounds are chosen dyadic so that the implementation arithmetic is exact',
        're.match enters as a table computed with the real re',
    ]

    def revive(self, case):
        return cx.revive(case)

    def translate(self):
        import translate
        return translate.regenerate(['Report'])

    def corpus(self):
        return [
            {'frame': {'nrows': 2, 'cols': [{'name': 'a', 'fam': 'float64', 'cells': [-8.0, 4.0]}]},
             'constraints': {'a': [{'kind': 'min', 'value': -8.0, 'precision': 'fuzzy'},
                                   {'kind': 'max', 'value': 2.0, 'precision': 'fuzzy'}]}, 'eps': [1, 2], 'strict': False},
            {'frame': {'nrows': 1, 'cols': [{'name': 'a', 'fam': 'int64', 'cells': [3]}]},
             'constraints': {'zz': [{'kind': 'type', 'value': 'int'}]}, 'eps': [0, 1], 'strict': True},
            {'frame': {'nrows': 3, 'cols': [{'name': 'o', 'fam': 'object-bool', 'cells': [True, None, False]}]},
             'constraints': {'o': [{'kind': 'type', 'value': 'bool'}]}, 'eps': [0, 1], 'strict': False},
        ]

    def gen_case(self, rng, i):
        fr = cx.gen_frame(rng, fams=MODEL_FAMS + ['category', 'category-unused', 'datetime-tz'] if rng.random() < 0.2 else MODEL_FAMS)
        for c in fr['cols']:
            # |ints| <= 2**40 and no infinities: the fuzzy bound v*(1+eps) is then exact in binary floating point
            c['cells'] = [None if x is None else
                          (x % (2 ** 40) if isinstance(x, int) and not isinstance(x, bool) and abs(x) > 2 ** 40 else
                           (1.0 if isinstance(x, float) and math.isinf(x) else x)) for x in c['cells']]
        cons = {}
        for c in fr['cols']:
            cons[c['name']] = gen_constraints(rng, c)
        if rng.random() < 0.12:
            # constraints on a field the frame lacks: every kind, with and without a value
            typical = {'type': 'int', 'min': 1, 'max': 5, 'min_length': 1, 'max_length': 3, 'sign': 'positive', 'max_nulls': 1,
                       'no_duplicates': True, 'allowed_values': ['a', 'b'], 'rex': ['^a$']}
            cons['missing_field'] = [{'kind': k, 'value': None if rng.random() < 0.5 else typical[k]}
                                     for k in rng.sample(list(typical), rng.randint(1, 4))]
        e = rng.choice(EPS)
        return {'frame': fr, 'constraints': cons, 'eps': [e.numerator, e.denominator], 'strict': rng.random() < 0.3}

    # ---------------------------------------------------------------
    def _run(self, case, detect=False):
        key = (json.dumps(case, sort_keys=True, default=str), detect)
        cache = getattr(self, '_cache', None)
        if cache is None:
            cache = self._cache = {}
        if key in cache:
            return cache[key]
        df = cx.to_df(case['frame'])
        eps = case['eps'][0] / case['eps'][1]
        # the documented default of epsilon is 0: half of the cases with epsilon 0 leave the argument out
        ekw = {} if (eps == 0 and case.get('eps_omitted', case['frame']['nrows'] % 2 == 0)) else {'epsilon': eps}
        try:
            with quiet(), contextlib.redirect_stdout(io.StringIO()):
                if detect:
                    v = detect_df(df, tdda_dict(case['constraints'], None if case.get('naive_tz_bounds') else case['frame']),
                                  type_checking='strict' if case['strict'] else 'sloppy', repair=False, **ekw)
                else:
                    v = verify_df(df, tdda_dict(case['constraints'], None if case.get('naive_tz_bounds') else case['frame']),
                                  type_checking='strict' if case['strict'] else 'sloppy', repair=False, **ekw)
            res = ('ok', v)
        except Exception as e:
            res = ('exc', e)
        if len(cache) > 50:
            cache.clear()
        cache[key] = res
        return res

    def _rex(self, case):
        rexes = []
        for ks in case['constraints'].values():
            for k in ks:
                if k['kind'] == 'rex' and k['value']:
                    for r in k['value']:
                        if r not in rexes:
                            rexes.append(r)
        strings = sorted({c for col in case['frame']['cols'] for c in col['cells'] if isinstance(c, str)})
        return rexes, strings

    def model_ops(self, case):
        try:
            frame = [cx.model_col(c) for c in case['frame']['cols']]
            rexes, strings = self._rex(case)
            ids = {r: i for i, r in enumerate(rexes)}
            cons = [[name, [model_constraint(k, ids) for k in ks]] for name, ks in self._ordered(case)]
        except ValueError:
            return []
        if any(c['ftype'] == 'other' for c in frame):
            return []
        cfg = {'eps': case['eps'], 'strict': case['strict'], 'rx': cx.rx_table(rexes, strings)}
        ops = [{'op': 'cx.verify', 'cfg': cfg, 'frame': frame, 'constraints': cons, 'detect': d} for d in (False, True)]
        # the aggregates the verdicts rest on are tied in this check too (real columns: whole-number count)
        for mc, col in zip(frame, case['frame']['cols']):
            if mc['ftype'] == 'real':
                ops.append({'op': 'cx.calc', 'col': mc})
        return ops + [op for op, _ in self._reports(case)]

    REPORTS = [('all', False), ('all', True), ('fields', False), ('fields', True), ('records', True)]

    def _reports(self, case):
        """[(model op, implementation text)]: the printed report of the real verification in every mode and mark set; the
        model renders the same verdicts (the verdicts themselves are the business of cx.verify)"""
        st, v = self._run(case, False)
        if st == 'exc':
            return []
        fields = []
        for name, fr in v.fields.items():
            if not isinstance(name, str):
                return []
            fields.append({'name': name, 'failures': int(fr.failures), 'passes': int(fr.passes),
                           'verdicts': [[k, None if x is None else bool(x)] for k, x in fr.items()]})
        out = []
        saved = (v.report, v.ascii)
        try:
            for mode, asc in self.REPORTS:
                v.report, v.ascii = mode, asc
                try:
                    text = str(v)
                except Exception as e:   # noqa
                    text = {'exc': type(e).__name__}
                out.append(({'op': 'c02.report', 'mode': mode, 'ascii': asc, 'fields': fields, 'passes': int(v.passes),
                             'failures': int(v.failures)}, text))
        finally:
            v.report, v.ascii = saved
        return out

    def _ordered(self, case):
        """fields in the order verify() reports them: missing fields first, then frame order"""
        names = [c['name'] for c in case['frame']['cols']]
        items = list(case['constraints'].items())
        return sorted(items, key=lambda kv: names.index(kv[0]) if kv[0] in names else -1)

    def impl_outputs(self, case):
        out = []
        for d in (False, True):
            st, v = self._run(case, d)
            if st == 'exc':
                out.append({'exc': type(v).__name__})
                continue
            fields = []
            for name, fr in v.fields.items():
                fields.append([name, {k: bool(x) for k, x in fr.items()}, fr.passes, fr.failures])
            out.append({'passes': v.passes, 'failures': v.failures, 'fields': fields})
        from tdda.constraints.pd.constraints import PandasConstraintCalculator
        for col in case['frame']['cols']:
            try:
                mc = cx.model_col(col)
            except ValueError:
                continue
            if mc['ftype'] == 'real':
                df = cx.to_df({'cols': [col]})
                try:
                    out.append(PandasConstraintCalculator(df).calc_non_integer_values_count(col['name']))
                except Exception as e:
                    out.append({'exc': type(e).__name__})
        return out + [text for _, text in self._reports(case)]

    def canon_model(self, case, outs):
        # verdicts keyed by kind (the implementation reports them in its preferred key order)
        nrep = len(self._reports(case))
        reports = [o['ok'] if 'ok' in o else {'exc': o.get('exc')} for o in (outs[len(outs) - nrep:] if nrep else [])]
        outs = outs[:len(outs) - nrep] if nrep else outs
        res = []
        ordered = self._ordered(case)
        for o in outs[2:]:
            res_tail = o['ok']['non_integer_count'] if 'ok' in o else {'exc': o.get('exc')}
            res.append(res_tail)
        tail, res = res, []
        for d, o in zip((False, True), outs[:2]):
            st, v = self._run(case, d)
            if st == 'exc':
                # an exception of the implementation is the oracle's business ('raises' clause), not a
                # model/implementation disagreement: the model has no verdict for a crashed run
                res.append({'exc': type(v).__name__})
                continue
            if 'ok' not in o:
                res.append({'exc': o.get('exc')})
                continue
            v = o['ok']
            fields = []
            for (name, ks), f in zip(ordered, v['fields']):
                fields.append([f[0], {k['kind']: b for k, b in zip(ks, f[1])}, f[2], f[3]])
            res.append({'passes': v['passes'], 'failures': v['failures'], 'fields': fields})
        return res + tail + reports

    def nontrivial_key(self, case):
        for ks in case['constraints'].values():
            for k in ks:
                self.count('kind_' + k['kind'])
        if any(any(c is not None for c in col['cells']) for col in case['frame']['cols']):
            return json.dumps(case, sort_keys=True, default=str)
        return None

    # ---------------------------------------------------------------
    def oracle(self, case):
        F = []
        fail = lambda clause, detail, key=None: F.append(core.Failure(clause, case, detail, key or clause))
        eps = Fraction(case['eps'][0], case['eps'][1])
        cols = {c['name']: c for c in case['frame']['cols']}
        st, v = self._run(case, False)
        if st == 'exc':
            kinds = sorted({k['kind'] for ks in case['constraints'].values() for k in ks})
            fams = sorted({c['fam'] for c in case['frame']['cols']})
            msg = str(v)
            cause = ''
            if 'offset-naive and offset-aware' in msg or 'tz-naive and tz-aware' in msg or 'Cannot compare tz' in msg:
                cause = ':datetime-tz'
            elif 'Categorical' in msg or '.str accessor' in msg:
                cause = ':categorical'
            fail('raises', '%s: %s' % (type(v).__name__, msg[:200]), 'raises:%s%s' % (type(v).__name__, cause))
            return F
        # the default repair of column types only concerns fields whose one required type is string or bool (a column of
        # digits read as numbers, of 0 / 1 read as integers): elsewhere the verdicts with and without it are the same
        def _scalar_sb(ks_):
            return any(k_['kind'] == 'type' and k_['value'] in ('string', 'bool') for k_ in ks_)
        if not any(_scalar_sb(ks_) for ks_ in case['constraints'].values()):
            try:
                eps_f = case['eps'][0] / case['eps'][1]
                with quiet(), contextlib.redirect_stdout(io.StringIO()):
                    vr = verify_df(cx.to_df(case['frame']),
                                   tdda_dict(case['constraints'], None if case.get('naive_tz_bounds') else case['frame']),
                                   epsilon=eps_f, type_checking='strict' if case['strict'] else 'sloppy')
                a_ = {n_: {k_: bool(x_) for k_, x_ in f_.items()} for n_, f_ in v.fields.items()}
                b_ = {n_: {k_: bool(x_) for k_, x_ in f_.items()} for n_, f_ in vr.fields.items()}
                if a_ != b_:
                    diff_ = sorted((n_, k_) for n_ in a_ for k_ in a_[n_] if b_.get(n_, {}).get(k_) != a_[n_][k_])
                    fail('repair-changes-verdicts', 'no field requires the one type string or bool, and the default repair of '
                         'column types changes the verdicts of %r' % diff_[:4], 'repair-changes-verdicts')
            except Exception:   # noqa  (what verification raises is judged above)
                pass
        tot_p = tot_f = 0
        for name, ks in case['constraints'].items():
            fr = v.fields.get(name)
            if fr is None:
                fail('field-missing-from-result', 'no result for field %r' % name)
                continue
            p = f = 0
            for k in ks:
                got = fr.get(k['kind'])
                col = cols.get(name)
                try:
                    want = sat(col, col is not None, k, eps, case['strict'])
                except TypeError:
                    want = None
                if got is None:
                    fail('verdict-missing', '%s.%s has no verdict' % (name, k['kind']))
                    continue
                if bool(got):
                    p += 1
                else:
                    f += 1
                if want is not None and bool(got) != want:
                    fam = col['fam'] if col else 'missing'
                    fail('verdict', '%s %s=%r (precision %s, eps %s) on %s %r: reported %s, documented meaning %s'
                         % (name, k['kind'], k['value'], k.get('precision'), eps, fam,
                            None if col is None else col['cells'][:8], bool(got), want),
                         'verdict:%s:%s' % (k['kind'], fam if fam in ('datetime-tz', 'object-date', 'category', 'category-unused', 'str', 'missing') else cx.col_ftype(col)))
            if (fr.passes, fr.failures) != (p, f):
                fail('field-totals', '%s: passes/failures %r, verdict counts %r' % (name, (fr.passes, fr.failures), (p, f)))
            tot_p += p
            tot_f += f
        if (v.passes, v.failures) != (tot_p, tot_f):
            fail('totals', 'passes/failures %r, verdict counts %r' % ((v.passes, v.failures), (tot_p, tot_f)))
        # tabular form
        try:
            tf = v.to_frame()
            if list(tf['field']) != list(v.fields.keys()) or list(tf['passes']) != [x.passes for x in v.fields.values()] \
                    or list(tf['failures']) != [x.failures for x in v.fields.values()]:
                fail('to_frame', 'table disagrees with the field results')
            for name, fr in v.fields.items():
                row = tf[tf['field'] == name].iloc[0]
                for kind, val in fr.items():
                    if bool(row[kind]) != bool(val):
                        fail('to_frame', '%s.%s table %r verdict %r' % (name, kind, row[kind], val))
                # a kind the field has no constraint of carries no verdict in the table (a null cell, not a pass)
                for kind in tf.columns:
                    if kind in ('field', 'failures', 'passes') or kind in fr:
                        continue
                    if not pd.isnull(row[kind]):
                        fail('to_frame', '%s has no %s constraint but the table shows %r for it' % (name, kind, row[kind]),
                             'to_frame:verdict-for-absent-constraint')
            s = str(v)
            m = re.search(r'Constraints passing: (\d+)\nConstraints failing: (\d+)', s)
            if not m or (int(m.group(1)), int(m.group(2))) != (v.passes, v.failures):
                fail('str-totals', 'printed totals disagree')
            # the printed report, in every report mode and both mark sets: each constraint carries the mark of its verdict
            saved = (v.report, v.ascii)
            try:
                for report in ('all', 'fields', 'records'):
                    for asc in (False, True):
                        v.report, v.ascii = report, asc
                        text = str(v)
                        tick, cross = ('OK', 'X') if asc else ('\u2713', '\u2717')
                        shown = {}
                        for line in text.split('\n'):
                            for name in v.fields.keys():
                                if line.startswith('%s: ' % name) and re.match(r'\d+ failures?  \d+ pass(es)?(  |$)', line[len(name) + 2:]):
                                    shown[name] = line[len(name) + 2:].split('  ')[2:]
                        for name, fr in v.fields.items():
                            want_shown = report == 'all' or fr.failures > 0
                            if (name in shown) != want_shown:
                                fail('report-fields', 'report=%s: field %r %s' % (report, name, 'missing' if want_shown else 'shown'),
                                     'report-fields:' + report)
                                continue
                            if not want_shown:
                                continue
                            want_marks = ['%s %s' % (kind, '-' if val is None else (tick if val else cross)) for kind, val in fr.items()]
                            if [t for t in shown[name] if t] != want_marks:
                                fail('report-marks', 'report=%s ascii=%s field %r printed %r, verdicts %r'
                                     % (report, asc, name, shown[name], want_marks), 'report-marks')
            finally:
                v.report, v.ascii = saved
        except Exception as e:
            fail('report-raises', repr(e), 'report-raises:' + type(e).__name__)
        # adding a null-valued constraint changes no other verdict
        extra = None
        for name, ks in case['constraints'].items():
            have = {k['kind'] for k in ks}
            free = [k for k in ('min', 'max', 'sign', 'max_nulls', 'min_length', 'type', 'rex') if k not in have]
            if free and name in cols:
                extra = (name, free[0])
                break
        if extra:
            c2 = dict(case, constraints={n: (ks + [{'kind': extra[1], 'value': None}] if n == extra[0] else ks)
                                         for n, ks in case['constraints'].items()})
            st2, v2 = self._run(c2, False)
            if st2 == 'exc':
                fail('null-constraint-raises', repr(v2), 'null-constraint-raises:' + type(v2).__name__)
            else:
                if v2.passes != v.passes + 1 or v2.failures != v.failures:
                    fail('null-constraint-inert', 'totals %r -> %r' % ((v.passes, v.failures), (v2.passes, v2.failures)))
                for name, fr in v.fields.items():
                    for kind, val in fr.items():
                        if bool(v2.fields[name].get(kind)) != bool(val):
                            fail('null-constraint-inert', '%s.%s changed' % (name, kind))
        return F


PROP = C02
