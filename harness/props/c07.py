"""C07 - discovery reports exact statistics of the data (constraints are tight)."""
import contextlib
import io
import json
import math
import os
from fractions import Fraction

import core
import cxcommon as cx

core.setup_repo_path()
import numpy as np  # noqa: E402
import pandas as pd  # noqa: E402
from tdda.constraints import discover_df  # noqa: E402
from tdda.constraints.pd.constraints import PandasConstraintCalculator  # noqa: E402

MODEL_FAMS = [f for f in cx.FAMILIES if f not in ('datetime-tz', 'str') + cx.OPT_IN]


def constraint_json(c, rex_ids=None):
    k = c.kind
    v = c.value
    if k == 'type':
        return {'k': 'type', 'v': [v] if not isinstance(v, (list, tuple)) else list(v)}
    if k in ('min', 'max'):
        return {'k': k, 'v': cx.canon_val(cx.val_json(v))}
    if k in ('min_length', 'max_length', 'max_nulls'):
        return {'k': k, 'v': None if v is None else int(v)}
    if k == 'sign':
        return {'k': k, 'v': v}
    if k == 'no_duplicates':
        return {'k': k, 'v': v}
    if k == 'allowed_values':
        return {'k': k, 'v': [cx.val_json(x) for x in v]}
    if k == 'rex':
        return {'k': k, 'v': list(range(len(v)))}
    raise ValueError(k)


def canon_constraints(ks):
    out = []
    for k in ks:
        k = dict(k)
        if k['k'] in ('min', 'max'):
            k['v'] = cx.canon_val(k['v'])
            k.pop('p', None)
        out.append(k)
    return out


def quiet():
    return contextlib.redirect_stderr(io.StringIO())


class C07(core.Prop):
    pid = 'C07'
    lean_modules = ['TddaVerif.Props.C07']
    theorems = ['TddaVerif.Props.C07.' + t for t in ['discover_total', 'type_is_column_type', 'nothing_for_absent', 'min_exact',
        'max_exact', 'length_exact', 'sign_strongest', 'maxNulls_iff', 'noDuplicates_iff', 'allowedValues_iff', 'uniques_exact']]
    quick_n = 1200
    thorough_n = 20000
    rule = ('cases: SQLite tables of 1..4 columns (integer / real / text / varchar / boolean / datetime, odd column names) '
            'discovered through discover_db_table, and single columns of 0..26 rows for every recognised family (int8/int64/uint8/uint64/Int64/UInt8, '
            'float32/64/Float64 incl. inf, bool/boolean/object-bool, object-str/string/category with up to 25 '
            'categories, datetime64[s|ms|us|ns], tz-aware, date objects, str), any null pattern, few-distinct and '
            'many-distinct value sets; discovery with and without rex. non-trivial = column with >= 2 non-null cells; '
            'distinct by content')
    trusted_base = [
        'pandas aggregates (min/max/nunique/str.len/count) are tied to the reference aggregates by the cx.calc op; '
        'binary floating point is not modelled (reals are exact rationals of the float values)',
        'rexpy enters discovery as a parameter (its output is replaced by indices)',
        'SQLite tables (a quarter of the cases) are discovered through discover_db_table with SQLite evaluating the aggregates; '
        'SQLite itself is not modelled',
    ]

    def revive(self, case):
        return cx.revive(case)

    def corpus(self):
        return [
            {'col': {'name': 'b', 'fam': 'bool', 'cells': [True, False]}, 'rex': False},
            {'col': {'name': 'd', 'fam': 'datetime64[ns]', 'cells': [cx.DATE_POOL[0], cx.DATE_POOL[1]]}, 'rex': False},
            {'col': {'name': 's', 'fam': 'object-str', 'cells': []}, 'rex': True},
            {'col': {'name': 's', 'fam': 'object-str', 'cells': ['cat%02d' % i for i in range(21)]}, 'rex': False},
            {'col': {'name': 's', 'fam': 'object-str', 'cells': ['cat%02d' % i for i in range(20)]}, 'rex': False},
            {'col': {'name': 'f', 'fam': 'float64', 'cells': [0.0, None, None]}, 'rex': False},
            # every sign class at its boundary
            {'col': {'name': 'np', 'fam': 'int64', 'cells': [-3, 0, -1]}, 'rex': False},
            {'col': {'name': 'nn', 'fam': 'int64', 'cells': [0, 5, 0]}, 'rex': False},
            {'col': {'name': 'neg', 'fam': 'float64', 'cells': [-2.5, -0.5]}, 'rex': False},
            {'col': {'name': 'pos', 'fam': 'Int64', 'cells': [1, None, 7]}, 'rex': False},
            {'col': {'name': 'z', 'fam': 'float64', 'cells': [0.0, 0.0]}, 'rex': False},
            {'col': {'name': 'mix', 'fam': 'int64', 'cells': [-1, 1]}, 'rex': False},
            {'kind': 'db', 'table': {'nrows': 3, 'cols': [{'name': 'np', 'decl': 'integer', 'cells': [-7, 0, None]},
                                                          {'name': 'b', 'decl': 'boolean', 'cells': [True, False, True]},
                                                          {'name': 'r', 'decl': 'real', 'cells': [-0.5, -2.25, -0.5]}]}},
        ]

    def gen_case(self, rng, i):
        if rng.random() < 0.25:
            from props import c08
            return {'kind': 'db', 'table': c08.gen_table(rng)}
        fr = cx.gen_frame(rng, maxcols=1)
        col = fr['cols'][0]
        if col['fam'] == 'float32' and rng.random() < 0.5:
            # single-precision values that are no short decimals (0.1 is 0.100000001490116...): the statistics are theirs
            col['cells'] = [c if c is None or rng.random() < 0.4 else
                            float(np.float32(rng.choice([0.1, 1 / 3, 2.7, -0.7, 1e-3, 123.456, -98.6, 0.2])))
                            for c in col['cells']]
        return {'col': col, 'rex': rng.random() < 0.3}

    # ---------------------------------------------------------------
    def _df(self, case):
        return cx.to_df({'cols': [case['col']]})

    def _discover(self, case):
        key = json.dumps(case, sort_keys=True, default=str)
        if getattr(self, '_dk', None) == key:
            return self._dv
        df = self._df(case)
        try:
            with quiet():
                cs = discover_df(df, inc_rex=case['rex'])
            res = ('ok', cs)
        except Exception as e:
            res = ('exc', e)
        self._dk, self._dv = key, res
        return res

    def model_ops(self, case):
        if case.get('kind') == 'db':
            from props import c08
            st, cons = self._db(case)
            if st == 'exc' or cons is None:
                return []
            return [{'op': 'cx.discover', 'col': c08.model_col(col), 'nrec': case['table']['nrows'], 'inc_rex': False, 'rex_ids': []}
                    for col in case['table']['cols']]
        try:
            mc = cx.model_col(case['col'])
        except ValueError:
            return []
        if mc['ftype'] == 'other':
            return []
        ops = [{'op': 'cx.calc', 'col': mc}]
        st, cs = self._discover(case)
        rex_ids = []
        if st == 'ok' and cs is not None and case['col']['name'] in cs.fields:
            fc = cs.fields[case['col']['name']]
            if 'rex' in fc.constraints:
                rex_ids = list(range(len(fc.constraints['rex'].value)))
        ops.append({'op': 'cx.discover', 'col': mc, 'nrec': len(case['col']['cells']), 'inc_rex': case['rex'],
                    'rex_ids': rex_ids})
        return ops

    def impl_outputs(self, case):
        if case.get('kind') == 'db':
            from props import c08
            st, cons = self._db(case)
            out = []
            for col in case['table']['cols']:
                if col['name'] not in cons.fields:
                    out.append(None)
                else:
                    ks = [constraint_json(c) for c in cons.fields[col['name']].constraints.values()]
                    out.append(c08.sort_allowed(c08.as_bool_vals(canon_constraints(ks), c08.DECLS[col['decl']])))
            return out
        df = self._df(case)
        name = case['col']['name']
        calc = PandasConstraintCalculator(df)
        ftype = cx.col_ftype(case['col'])
        vj = lambda v: cx.canon_val(cx.val_json(v))
        cat = case['col']['fam'] in ('category', 'category-unused')
        out = {'min': None if cat else vj(calc.calc_min(name)), 'max': None if cat else vj(calc.calc_max(name)),
               'min_length': None, 'max_length': None,
               'null_count': calc.calc_null_count(name), 'non_null_count': calc.calc_non_null_count(name),
               'nunique': calc.calc_nunique(name),
               'uniques': [vj(v) for v in calc.calc_unique_values(name, include_nulls=False)],
               'non_integer_count': 0}
        if ftype == 'string':
            try:
                ml, Ml = calc.calc_min_length(name), calc.calc_max_length(name)
            except AttributeError:
                ml = Ml = None   # all-null categorical: .str accessor unavailable (discovery never asks)
            out['min_length'] = None if pd.isnull(ml) else int(ml)
            out['max_length'] = None if pd.isnull(Ml) else int(Ml)
        if ftype == 'real':
            out['non_integer_count'] = calc.calc_non_integer_values_count(name)
        st, cs = self._discover(case)
        if st == 'exc':
            disc = {'exc': type(cs).__name__}
        elif cs is None or name not in cs.fields:
            disc = None
        else:
            disc = [constraint_json(c) for c in cs.fields[name].constraints.values()]
        return [out, disc]

    def canon_model(self, case, outs):
        if case.get('kind') == 'db':
            from props import c08
            return [None if o.get('ok') is None else c08.sort_allowed(canon_constraints(o['ok'])) if 'ok' in o
                    else {'exc': o.get('exc')} for o in outs]
        res = []
        for o in outs:
            if 'ok' not in o:
                res.append({'exc': o.get('exc')})
                continue
            v = o['ok']
            if isinstance(v, dict) and 'uniques' in v:
                v = dict(v, min=cx.canon_val(v['min']), max=cx.canon_val(v['max']),
                         uniques=[cx.canon_val(u) for u in v['uniques']])
                ftype = cx.col_ftype(case['col'])
                if ftype != 'real':
                    v['non_integer_count'] = 0
                if ftype != 'string':
                    v['min_length'] = v['max_length'] = None
                if case['col']['fam'] in ('category', 'category-unused'):
                    v['min'] = v['max'] = None
            elif isinstance(v, list):
                v = canon_constraints(v)
            res.append(v)
        return res

    def nontrivial_key(self, case):
        if case.get('kind') == 'db':
            self.count('kind_db')
            return json.dumps(case, sort_keys=True) if case['table']['nrows'] >= 2 else None
        self.count('fam_' + case['col']['fam'])
        if sum(c is not None for c in case['col']['cells']) >= 2:
            return json.dumps(case, sort_keys=True, default=str)
        return None

    # ---------------------------------------------------------------
    def oracle(self, case):
        F = []
        fail = lambda clause, detail, key=None: F.append(core.Failure(clause, case, detail, key or clause))
        if case.get('kind') == 'db':
            return self.db_oracle(case, fail) or F
        col = case['col']
        fam, cells, name = col['fam'], col['cells'], col['name']
        ftype = cx.col_ftype(col)
        st, cs = self._discover(case)
        if st == 'exc':
            # raising is C01's clause; here only the reported statistics matter
            return F
        got = {}
        if cs is not None and name in cs.fields:
            got = {k: c.value for k, c in cs.fields[name].constraints.items()}
            self._reported(fail, cs, name, got, fam)
        self._judge(fail, got, ftype, fam, cells)
        return F

    def _reported(self, fail, cs, name, got, fam):
        """what discovery *reports* (the dictionary / .tdda form) carries the same statistics as the constraint objects"""
        import datetime as _dt
        from tdda.constraints.base import DatasetConstraints
        try:
            back = DatasetConstraints()
            back.initialize_from_dict(json.loads(cs.to_json()))
            rep = {k: c.value for k, c in back.fields[name].constraints.items()}
        except Exception as e:   # noqa  (serialisation problems are C09's clauses)
            return

        def canon(v):
            if hasattr(v, 'to_pydatetime'):
                v = v.to_pydatetime(warn=False) if 'warn' in v.to_pydatetime.__code__.co_varnames else v.to_pydatetime()
            if isinstance(v, _dt.date) and not isinstance(v, _dt.datetime):
                v = _dt.datetime(v.year, v.month, v.day)
            if isinstance(v, _dt.datetime) and v.tzinfo is not None:
                v = v.astimezone(_dt.timezone.utc)
            return v
        for k in ('min', 'max'):
            if k in got and canon(rep.get(k)) != canon(got[k]):
                fail('reported-differs', 'the reported %s %r is not the statistic %r' % (k, rep.get(k), got[k]),
                     'reported-differs:' + k + (':' + fam if fam in ('datetime-tz', 'object-date') else ''))

    def _judge(self, fail, got, ftype, fam, cells):
        """the statement, clause by clause, against the statistics recomputed from the cells"""
        F = None
        if ftype == 'other':
            if got:
                fail('other-type-constraints', 'constraints %r discovered for an unrecognised column' % got)
            return F
        nn = [c for c in cells if c is not None]
        if fam.startswith('float') or fam == 'Float64':
            nn = [c for c in nn if not (isinstance(c, float) and math.isnan(c))]
        n = len(cells)
        fk = ':' + fam if fam in ('datetime-tz', 'object-date') else ''
        if got.get('type') != ftype:
            fail('type', 'type %r, column is %s (%s)' % (got.get('type'), ftype, fam), 'type:' + fam)
        if n == 0:
            extra = {k: v for k, v in got.items() if k not in ('type', 'rex')}
            if extra:
                fail('absent-data', 'discovered %r for a column with no rows' % extra)
            return F
        nnull = n - len(nn)
        want_mn = nnull if nnull < 2 else None
        if got.get('max_nulls') != want_mn:
            fail('max_nulls', 'max_nulls %r, null count %d' % (got.get('max_nulls'), nnull))
        if ftype == 'string':
            for k in ('min', 'max', 'sign'):
                if k in got:
                    fail('string-' + k, '%s discovered for a string column' % k)
            lens = [len(s) for s in nn]
            want = (min(lens), max(lens)) if lens else (None, None)
            if (got.get('min_length'), got.get('max_length')) != want:
                fail('length', 'lengths %r want %r' % ((got.get('min_length'), got.get('max_length')), want))
            distinct = sorted(set(nn))
            want_av = distinct if 0 < len(distinct) <= 20 else None
            g = got.get('allowed_values')
            if (None if g is None else list(g)) != want_av:
                fail('allowed_values', 'allowed_values %r want %r' % (g, want_av))
        else:
            for k in ('min_length', 'max_length', 'allowed_values'):
                if k in got:
                    fail('nonstring-' + k, '%s discovered for a %s column' % (k, ftype))
            if nn:
                conv = (lambda v: v)
                if ftype == 'date':
                    conv = lambda v: cx.micros(v) if not isinstance(v, pd.Timestamp) else cx.micros(v.to_pydatetime(warn=False))
                    want_lo, want_hi = min(nn), max(nn)
                    glo, ghi = got.get('min'), got.get('max')
                    try:
                        ok = (glo is not None and ghi is not None and conv(glo) == cx.micros(want_lo)
                              and conv(ghi) == cx.micros(want_hi))
                    except Exception:
                        ok = False
                    if not ok:
                        fail('minmax', 'min/max %r want %r' % ((glo, ghi), (want_lo, want_hi)), 'minmax' + fk)
                else:
                    want_lo, want_hi = min(nn), max(nn)
                    glo, ghi = got.get('min'), got.get('max')
                    if glo is None or ghi is None or glo != want_lo or ghi != want_hi or \
                            type(glo) is not type(want_lo):
                        if not (glo == want_lo and ghi == want_hi):
                            fail('minmax', 'min/max %r want %r' % ((glo, ghi), (want_lo, want_hi)))
                    lo, hi = want_lo, want_hi
                    if lo == 0 and hi == 0:
                        ws = 'zero'
                    elif lo > 0:
                        ws = 'positive'
                    elif lo >= 0:
                        ws = 'non-negative'
                    elif hi < 0:
                        ws = 'negative'
                    elif hi <= 0:
                        ws = 'non-positive'
                    else:
                        ws = None
                    if got.get('sign') != ws:
                        fail('sign', 'sign %r, strongest common class %r (min %r max %r)' % (got.get('sign'), ws, lo, hi))
                if ftype == 'date' and 'sign' in got:
                    fail('date-sign', 'sign discovered for a date column')
            else:
                for k in ('min', 'max'):
                    if k in got:
                        fail('allnull-' + k, '%s discovered for an all-null column' % k)
        # no_duplicates: present exactly when a non-real field has > 1 non-null values, all distinct
        distinct_all = len(set(nn)) == len(nn)
        want_nd = ftype != 'real' and len(nn) > 1 and distinct_all
        got_nd = got.get('no_duplicates') is True
        if got_nd != want_nd:
            fail('no_duplicates', 'no_duplicates %s, expected %s (%s, %d non-null, distinct=%s)'
                 % (got_nd, want_nd, ftype, len(nn), distinct_all),
                 'no_duplicates:never-for-%s' % ftype if (want_nd and ftype in ('bool', 'date')) else 'no_duplicates')
        return F


    # ------------------------------------------------------------------ SQLite tables
    def _db(self, case):
        key = json.dumps(case, sort_keys=True)
        if getattr(self, '_dbk', None) == key:
            return self._dbv
        import tempfile, shutil
        from props import c08
        from tdda.constraints import discover_db_table
        from tdda.constraints.db.drivers import database_connection
        d = tempfile.mkdtemp(prefix='c07db_')
        try:
            path = os.path.join(d, 't.sqlite3')
            c08.build(path, case['table'])
            try:
                with quiet():
                    db = database_connection(dbtype='sqlite', db=path)
                    cons = discover_db_table('sqlite', db, 't', inc_rex=False)
                res = ('ok', cons)
            except BaseException as e:   # noqa
                res = ('exc', e)
        finally:
            shutil.rmtree(d, ignore_errors=True)
        self._dbk, self._dbv = key, res
        return res

    def db_oracle(self, case, fail):
        from props import c08
        st, cons = self._db(case)
        if st == 'exc':
            return None      # raising is C08's clause
        for col in case['table']['cols']:
            ftype = c08.DECLS[col['decl']]
            cells = []
            for v in col['cells']:
                if v is None:
                    cells.append(None)
                elif ftype == 'date':
                    import datetime as _dt
                    cells.append(_dt.datetime.strptime(v, c08.FMT))
                elif ftype == 'real':
                    cells.append(float(v))
                else:
                    cells.append(v)
            got = {}
            if cons is not None and col['name'] in cons.fields:
                got = {k: c.value for k, c in cons.fields[col['name']].constraints.items()}
            self.count('db_' + col['decl'])
            self._judge(lambda clause, detail, key=None: fail(clause, 'sqlite %s column %r: %s' % (col['decl'], col['name'], detail),
                                                              # (the shared discovery logic: same call site, same key as for frames)
                                                              (key if (key or '').startswith('no_duplicates:never-for-') else 'db:' + (key or clause))),
                        got, ftype, 'db-' + col['decl'], cells)
        return None


PROP = C07
