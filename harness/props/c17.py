"""C17 - the tdda command line gives the same constraints and verdicts as the library."""
import contextlib
import copy
import io
import json
import os
import shutil
import subprocess
import sys
import tempfile

import core
import cxcommon as cx
import translate

core.setup_repo_path()
import pandas as pd  # noqa: E402
from tdda.constraints.console import main_with_argv  # noqa: E402
from tdda.constraints.pd.constraints import load_df, discover_df, verify_df, detect_df  # noqa: E402
from tdda.constraints.pd.discover import pd_discover_params  # noqa: E402
from tdda.constraints.pd.verify import pd_verify_params  # noqa: E402
from tdda.constraints.pd.detect import pd_detect_params  # noqa: E402

FAMS = ['int64', 'Int64', 'float64', 'bool', 'object-str', 'string', 'datetime64[ns]']
PARAMS = {'discover': pd_discover_params, 'verify': pd_verify_params, 'detect': pd_detect_params}
BOOLS = {
    'discover': [['-r', '--rex'], ['-R', '--norex'], ['-7', '--ascii']],
    'verify': [['-a', '--all'], ['-f', '--fields'], ['-7', '--ascii']],
    'detect': [['-a', '--all'], ['-f', '--fields'], ['-7', '--ascii'], ['--write-all'], ['--per-constraint'],
               ['--no-per-constraint'], ['--no-output-fields', '--no-original-fields'], ['--interleave'], ['--index'], ['--int']],
}
EPS = ['0', '0.5', '1e-3', '.25', '10', '1.', '0.01', '2', '1.5', '3', 'abc', '1e', '']
UNKNOWN = ['--bogus', '-z', '--no-such-flag', '--outputs', '-Q', '--rexx']


def gen_argv(rng, cmd, files=('in.csv', 'c.tdda', 'o.csv', 'extra')):
    """a command line written the documented way, with a sprinkling of mistakes"""
    items = []
    for sp in BOOLS[cmd]:
        if rng.random() < 0.22:
            items.append([rng.choice(sp)])
    if cmd != 'discover':
        if rng.random() < 0.3:
            items.append([rng.choice(['--epsilon', '-epsilon']), rng.choice(EPS[:10] if rng.random() < 0.85 else EPS)])
        if rng.random() < 0.25:
            items.append([rng.choice(['-t', '--type_checking']), rng.choice(['strict', 'sloppy', 'strict', 'lax'])])
    if cmd == 'detect' and rng.random() < 0.3:
        items.append(['--output-fields'] + rng.sample(['a', 'b', 'c0', 'x y', 'a,b', ' qty', 'amount, net', 'b '], rng.randint(0, 3)))
    if rng.random() < 0.12:
        items.append([rng.choice(UNKNOWN)])
    if rng.random() < 0.1 and items:
        items.append(list(rng.choice(items)))      # an option given twice
    rng.shuffle(items)
    npos = rng.choice([0, 1, 1, 2, 2, 2, 3, 3, 4]) if cmd == 'detect' else rng.choice([0, 1, 1, 2, 2, 2, 3])
    pos = list(files[:npos])
    if pos and rng.random() < 0.1:
        pos[0] = '-'
    flat = [t for it in items for t in it]
    if rng.random() < 0.7:
        return pos + flat
    return flat + pos


def quiet_run(fn, *a, stdin='', **kw):
    """(exit status or 'EXC:<name>' , stdout, stderr, result)"""
    out, err = io.StringIO(), io.StringIO()
    old = sys.stdin
    sys.stdin = io.StringIO(stdin)
    rc, res = 0, None
    try:
        with contextlib.redirect_stdout(out), contextlib.redirect_stderr(err):
            res = fn(*a, **kw)
    except SystemExit as e:
        rc = e.code if isinstance(e.code, int) else (0 if e.code is None else 1)
    except Exception as e:   # noqa  (an uncaught exception ends the process with status 1)
        rc = 'EXC:' + type(e).__name__
    finally:
        sys.stdin = old
    return rc, out.getvalue(), err.getvalue(), res


def strip_meta(text):
    d = json.loads(text)
    d.pop('creation_metadata', None)
    return d


class C17(core.Prop):
    pid = 'C17'
    lean_modules = ['TddaVerif.Props.C17']
    theorems = ['TddaVerif.Props.C17.' + t for t in [
        'scan_positionals_then_options', 'scan_options_then_positionals', 'unknown_option_never_runs', 'no_input_rejected',
        'too_many_positionals_rejected', 'rex_norex_rejected', 'all_fields_rejected', 'per_constraint_contradiction_rejected',
        'output_fields_contradiction_rejected', 'discover_params_exact', 'verify_params_exact', 'detect_params_exact',
        'tie_tables_wf', 'tie_dests', 'tie_documented_spelling', 'tie_positionals', 'applicable_perm', 'applicable_append', 'applicable_of_mem', 'not_applicable_iff', 'tie_applicable_exts']]
    quick_n = 200
    thorough_n = 4000
    level = 'proof'
    rule = ('cases: (flags) command lines for discover / verify / detect built from every documented spelling (short and long), '
            'values in the next token, lists, repeated and contradictory options, unknown options, 0..4 file arguments, options '
            'before or after the files; (files) frames of 1..3 columns x 0..10 rows over int / nullable int / float / bool / '
            'string / datetime written as CSV or parquet, discovered with and without -r to a file, to "-" and to nothing, from '
            'a file and from standard input, verified and detected (original and with 1-2 changed cells) under random documented '
            'flag sets, and the failing invocations (missing input, missing constraints, unknown flag, contradictory options). '
            'non-trivial = a file case with >= 2 rows; distinct by content')
    trusted_base = [
        'argparse is not modelled beyond the documented way of writing options (exact spellings, value in the next token, lists up '
        'to the next option, files contiguous); the scanner model is tied to pd_*_params on every generated command line',
        'harness/translate.py regenerates Generated/Flags.lean from the add_argument calls of flags.py and pd/{discover,verify,detect}.py (ast)',
        'commands are run in-process through console.main_with_argv with stdout / stderr / stdin redirected (SystemExit and uncaught '
        'exceptions read as the exit status); the corpus cases are also run as real processes (python -m tdda.constraints.console)',
        'pandas, the CSV / parquet readers and writers and the file system are runtime: the agreement of the command line with '
        'the library on them is decided by the oracle only',
    ]

    def __init__(self, tier, seed):
        super().__init__(tier, seed)
        self.tmp = tempfile.mkdtemp(prefix='c17_')
        import atexit
        atexit.register(lambda: shutil.rmtree(self.tmp, ignore_errors=True))

    def translate(self):
        return translate.regenerate(['Flags'])

    def corpus(self):
        fr = {'nrows': 4, 'cols': [{'name': 'i', 'fam': 'int64', 'cells': [1, 2, 3, 4]},
                                  {'name': 's', 'fam': 'object-str', 'cells': ['a', 'bb', None, 'ünï']}]}
        return [
            {'kind': 'files', 'frame': fr, 'fmt': 'csv', 'rex': True, 'vflags': ['-f', '-7'], 'dflags': ['--write-all'],
             'pseed': 1, 'subprocess': True},
            {'kind': 'files', 'frame': fr, 'fmt': 'parquet', 'rex': False, 'vflags': ['--epsilon', '0.5'],
             'dflags': ['--no-original-fields', '--index'], 'pseed': 2, 'subprocess': True},
            {'kind': 'flags', 'cmd': 'detect', 'argv': ['in.csv', 'c.tdda', 'o.csv', '--no-original-fields']},
            {'kind': 'flags', 'cmd': 'detect', 'argv': ['in.csv'], 'documented': True},
            {'kind': 'flags', 'cmd': 'discover', 'argv': ['in.csv', '-r', '-R']},
            {'kind': 'flags', 'cmd': 'verify', 'argv': ['in.csv', 'c.tdda', '-a', '-f']},
            {'kind': 'flags', 'cmd': 'detect', 'argv': ['in.csv', 'c.tdda', 'o.csv', '--output-fields', '--no-output-fields']},
        ]

    def gen_case(self, rng, i):
        if rng.random() < 0.6:
            cmd = rng.choice(['discover', 'verify', 'detect'])
            return {'kind': 'flags', 'cmd': cmd, 'argv': gen_argv(rng, cmd)}
        fr = cx.gen_frame(rng, fams=FAMS, maxrows=10, maxcols=3)
        vflags = [t for t in gen_argv(rng, 'verify', files=()) if t not in UNKNOWN]
        dflags = [t for t in gen_argv(rng, 'detect', files=()) if t not in UNKNOWN]
        if rng.random() < 0.15 and fr['nrows']:
            # texts that a CSV reader with its own defaults would take for missing values
            fr['cols'].append({'name': 'tok%d' % len(fr['cols']), 'fam': 'object-str',
                               'cells': [rng.choice(['NA', 'null', 'None', 'n/a', 'x', 'NaN']) for _ in range(fr['nrows'])]})
        if rng.random() < 0.35 and '--index' not in dflags:
            dflags = dflags + ['--index']           # (a row-number column in the output file)
        if rng.random() < 0.2 and not any(t in vflags for t in ('--epsilon', '-epsilon')):
            vflags = vflags + ['--epsilon', rng.choice(['2', '1.5', '3', '0.5', '10'])]
        for c in fr['cols']:
            if rng.random() < 0.15:
                # column names a shell user has to quote: commas, blanks at either end
                c['name'] = rng.choice(['amount, net', ' qty', 'a,b', 'total ', 'x, y ,z']) + c['name'][-1]
        if fr['cols'] and rng.random() < 0.3:
            # original columns to write, named explicitly (the library is given the same names directly)
            k = rng.randint(1, len(fr['cols']))
            ofields = [c['name'] for c in rng.sample(fr['cols'], k)]
            drop = {'--output-fields', '--no-output-fields', '--no-original-fields', 'a', 'b', 'c0', 'x y', 'a,b', ' qty', 'amount, net', 'b '}
            dflags = [t for t in dflags if t not in drop]
            return {'kind': 'files', 'frame': fr, 'fmt': rng.choice(['csv', 'parquet']), 'rex': rng.random() < 0.4,
                    'vflags': vflags, 'dflags': dflags, 'ofields': ofields, 'pseed': rng.randrange(10 ** 6), 'subprocess': False}
        null_perturb = rng.random() < 0.3
        if null_perturb and not any(t in vflags for t in ('-t', '--type_checking')):
            vflags = vflags + [rng.choice(['-t', '--type_checking']), rng.choice(['strict', 'strict', 'sloppy'])]
        return {'kind': 'files', 'frame': fr, 'fmt': rng.choice(['csv', 'csv', 'parquet']) if null_perturb else rng.choice(['csv', 'parquet']),
                'rex': rng.random() < 0.4, 'null_perturb': null_perturb,
                'vflags': vflags, 'dflags': dflags, 'pseed': rng.randrange(10 ** 6), 'subprocess': False}

    def nontrivial_key(self, case):
        self.count('kind_' + case['kind'])
        if case['kind'] == 'flags':
            self.count('cmd_' + case['cmd'])
            return None
        self.count('fmt_' + case['fmt'])
        return json.dumps(case, sort_keys=True, default=str) if case['frame']['nrows'] >= 2 else None

    # ---------------------------------------------------------------- correspondence (flags -> keywords)
    PATHS = ['in.csv', 'c.tdda', 'o.csv', 'extra', '-', 'dir.v2/data', '.csv', 'a.b/.hidden', 'x.CSV', 'x.csv.bak', 'x.parquet',
             'archive.tar.json', 'noext', '..yaml', '...', 'x.', 'x.tsv/', 'x.tsv/y', '/abs/path.psv', 'strict', '0.05', 'a.yaml',
             'sqlite:t', 'table', '.hidden.json', 'a/b.c/d.e.csv', '']

    def _dispatch_argv(self, case):
        """the arguments after the command name, some replaced by path-like words (deterministic in the case)"""
        import random
        rng = random.Random(json.dumps(case, sort_keys=True))
        argv = [a if rng.random() < 0.6 else rng.choice(self.PATHS) for a in case['argv']]
        for _ in range(rng.choice([0, 0, 1, 2])):
            argv.insert(rng.randint(0, len(argv)), rng.choice(self.PATHS))
        return argv

    def model_ops(self, case):
        if case['kind'] != 'flags':
            return []
        return [{'op': 'c17.params', 'cmd': case['cmd'], 'argv': case['argv']},
                {'op': 'c17.applicable', 'argv': self._dispatch_argv(case)}]

    def impl_outputs(self, case):
        return [self._impl_params(case), self._impl_applicable(case)]

    def _impl_applicable(self, case):
        import os
        from tdda.constraints.pd.extension import TDDAPandasExtension
        argv = self._dispatch_argv(case)
        try:
            return {'applicable': bool(TDDAPandasExtension(list(argv)).applicable()), 'exts': [os.path.splitext(a)[1] for a in argv]}
        except Exception as e:   # noqa
            return {'exc': type(e).__name__}

    def _impl_params(self, case):
        rc, out, err, res = quiet_run(PARAMS[case['cmd']], list(case['argv']))
        if rc == 0 and res is not None:
            d = dict(res)
            return d
        if rc == 0:
            return 'exit0'
        return 'reject' if not str(rc).startswith('EXC') else {'exc': rc}

    def canon_model(self, case, outs):
        res = []
        for o in outs:
            v = o['ok'] if 'ok' in o else {'exc': o.get('exc')}
            if isinstance(v, dict):
                v = {k: (float(x['float']) if isinstance(x, dict) and 'float' in x else x) for k, x in v.items()}
            res.append(v)
        return res

    # ---------------------------------------------------------------- the property on the real code
    def _cli(self, argv, stdin=''):
        return quiet_run(main_with_argv, ['tdda'] + argv, verbose=True, stdin=stdin)

    def _write(self, frame, path):
        df = cx.to_df(frame)
        if path.endswith('.parquet'):
            df.to_parquet(path)
        else:
            df.to_csv(path, index=False)

    def oracle(self, case):
        F = []
        fail = lambda clause, detail, key=None: F.append(core.Failure(clause, case, detail, key or clause))
        if case['kind'] == 'flags':
            return self.flags_oracle(case, fail) or F
        import random
        rng = random.Random(case['pseed'])
        d = tempfile.mkdtemp(prefix='case_', dir=self.tmp)
        cwd = os.getcwd()
        try:
            os.chdir(d)
            ext = case['fmt']
            inp = 'in.' + ext
            try:
                self._write(case['frame'], inp)
            except Exception:
                return F
            try:
                df = load_df(inp)
            except Exception:
                return F       # not loadable by the library either: nothing to compare
            fams = sorted({c['fam'] for c in case['frame']['cols']})
            rflag = ['-r'] if case['rex'] else []
            # --- discover: to a file, to '-', to nothing, from stdin
            rc, out, err, _ = self._cli(['discover'] + rflag + [inp, 'c.tdda'])
            with contextlib.redirect_stderr(io.StringIO()):
                lib = discover_df(load_df(inp), inc_rex=case['rex'])
            if lib is None:
                return F
            want = strip_meta(lib.to_json())
            if rc != 0 or not os.path.exists('c.tdda'):
                fail('discover-fails', 'discover %s exits %r; %s' % (inp, rc, err[-200:]), 'discover-fails:%s' % rc)
                return F
            got = strip_meta(open('c.tdda').read())
            if got != want:
                fail('discover-differs', 'file written by the command line differs from discover_df(load_df(path))',
                     'discover-differs:file')
            rc2, out2, _, _ = self._cli(['discover'] + rflag + [inp, '-'])
            rc3, out3, _, _ = self._cli(['discover'] + rflag + [inp])
            for how, (r, o) in {'dash': (rc2, out2), 'no-output': (rc3, out3)}.items():
                try:
                    ok = r == 0 and strip_meta(o) == want
                except Exception:
                    ok = False
                if not ok:
                    fail('discover-differs', 'discover to %s: exit %r, output differs from the library' % (how, r),
                         'discover-differs:' + how)
            if ext == 'csv':
                rc4, _, e4, _ = self._cli(['discover'] + rflag + ['-', 'c_stdin.tdda'], stdin=open(inp).read())
                if rc4 != 0 or not os.path.exists('c_stdin.tdda'):
                    fail('discover-fails', 'discover from standard input exits %r %s' % (rc4, e4[-150:]), 'discover-fails:stdin')
            # --- verify: own file (closure) and a perturbed file, with flags
            fr2 = copy.deepcopy(case['frame'])
            for _ in range(rng.randint(1, 2)):
                if fr2['nrows'] == 0:
                    break
                col = rng.choice(fr2['cols'])
                col['cells'][rng.randrange(fr2['nrows'])] = rng.choice(cx.gen_cells(rng, col['fam'], 3))
            # with --epsilon E: a value beyond the maximum by a fraction of E times the maximum (within the tolerance the
            # option asks for, outside a smaller one: the verdict depends on the value of E that reaches the library)
            eps = None
            for a, b in zip(case['vflags'], case['vflags'][1:]):
                if a in ('--epsilon', '-epsilon'):
                    try:
                        eps = float(b)
                    except ValueError:
                        eps = None
            if eps and fr2['nrows']:
                for col in fr2['cols']:
                    nums = [c for c in col['cells'] if isinstance(c, (int, float)) and not isinstance(c, bool) and c == c]
                    if col['fam'] in ('int64', 'Int64', 'float64') and nums and 0 < max(nums) < 10 ** 6:
                        m = max(nums)
                        v = m + m * eps * rng.choice([0.55, 0.9])
                        col['cells'][rng.randrange(fr2['nrows'])] = int(v) if col['fam'] != 'float64' else float(int(v * 4)) / 4
                        self.count('epsilon_scaled_perturbation')
                        break
            if case.get('null_perturb') and fr2['nrows']:
                # a missing value in a column that had none (a CSV integer column then loads as whole-number reals:
                # strict and sloppy type checking part ways)
                for col in fr2['cols']:
                    if col['fam'] in ('int64', 'Int64', 'bool') and rng.random() < 0.8:
                        col['fam'] = {'int64': 'Int64', 'bool': 'boolean'}.get(col['fam'], col['fam'])
                        col['cells'][rng.randrange(fr2['nrows'])] = None
            inp2 = 'in2.' + ext
            try:
                self._write(fr2, inp2)
                load_df(inp2)
            except Exception:
                inp2 = None
            rc, out, err, v = self._cli(['verify', inp, 'c.tdda'])
            if rc != 0 or v is None:
                fail('verify-fails', 'verify of a file against its own constraints exits %r: %s' % (rc, err[-200:]),
                     'verify-fails:%s' % rc)
            elif v.failures:
                fail('own-constraints-fail', '%d failures verifying %s against constraints discovered from it (%s)'
                     % (v.failures, inp, fams), 'own-constraints-fail:' + ext)
            # --- verify with the constraints file left out: the documented default is the input's own path with .tdda,
            # directory included, wherever the command is run from
            try:
                os.makedirs('sub', exist_ok=True)
                shutil.copy(inp, os.path.join('sub', inp))
                shutil.copy('c.tdda', os.path.join('sub', 'in.tdda'))
                sub_inp = rng.choice([os.path.join('sub', inp), os.path.abspath(os.path.join('sub', inp))])
                rc, out, err, v = self._cli(['verify', sub_inp])
                with contextlib.redirect_stderr(io.StringIO()):
                    lv = verify_df(load_df(sub_inp), os.path.join('sub', 'in.tdda'))
                if rc != 0 or v is None:
                    fail('verify-fails', 'verify %s (constraints file left out, sub/in.tdda is there) exits %r: %s'
                         % (sub_inp, rc, err[-200:]), 'verify-fails:default-constraints-path')
                elif (v.passes, v.failures) != (lv.passes, lv.failures):
                    fail('verify-differs', 'constraints file left out: command line %s / %s, library with sub/in.tdda %s / %s'
                         % (v.passes, v.failures, lv.passes, lv.failures), 'verify-differs:default-constraints-path')
            except OSError:
                pass
            vkw = self._kw('verify', case['vflags'])
            if vkw is not None and eps is not None:
                # the documented meaning, read here and not through the translation under test: --epsilon E is epsilon=E
                vkw = dict(vkw, epsilon=eps)
            for path in [p for p in (inp, inp2) if p]:
                if vkw is None:
                    break
                rc, out, err, v = self._cli(['verify'] + case['vflags'] + [path, 'c.tdda'])
                with contextlib.redirect_stderr(io.StringIO()):
                    try:
                        lv = verify_df(load_df(path), 'c.tdda', **vkw)
                    except Exception as e:
                        lv = e
                if isinstance(lv, Exception):
                    if rc == 0:
                        fail('verify-differs', 'library raises %s, command line exits 0' % type(lv).__name__, 'verify-differs:lib-raises')
                    continue
                if rc != 0 or v is None:
                    fail('verify-fails', 'verify %s exits %r: %s' % (case['vflags'], rc, err[-200:]), 'verify-fails:%s' % rc)
                    continue
                if (v.passes, v.failures) != (lv.passes, lv.failures):
                    fail('verify-differs', 'command line %s / %s, library %s / %s' % (v.passes, v.failures, lv.passes, lv.failures),
                         'verify-differs:counts')
                elif out != str(lv) + '\n':
                    fail('verify-differs', 'printed report differs from str(verify_df(...)) with the same keywords (flags %s)'
                         % case['vflags'], 'verify-differs:report')
            # --- verify from standard input: the same counts as from the file
            if ext == 'csv':
                # (with constraints written by hand on the number of nulls: text columns read from a file get none by discovery)
                with open('c_nulls.tdda', 'w') as f_:
                    json.dump({'fields': {c_['name']: {'max_nulls': 0} for c_ in case['frame']['cols']
                                          if not any(x_ is None for x_ in c_['cells'])}}, f_)
                for path, cfile in [(p, 'c.tdda') for p in (inp2, inp) if p][:1] + [(inp, 'c_nulls.tdda')]:
                    rc_f, _, _, v_f = self._cli(['verify', path, cfile])
                    rc_s, _, e_s, v_s = self._cli(['verify', '-', cfile], stdin=open(path, encoding='utf-8').read())
                    if rc_f == 0 and v_f is not None:
                        if rc_s != 0 or v_s is None:
                            fail('verify-fails', 'verify from standard input exits %r: %s' % (rc_s, e_s[-150:]), 'verify-fails:stdin')
                        elif (v_s.passes, v_s.failures) != (v_f.passes, v_f.failures):
                            fail('verify-differs', 'from standard input %s / %s, from the file %s / %s'
                                 % (v_s.passes, v_s.failures, v_f.passes, v_f.failures), 'verify-differs:stdin')
            # --- detect
            dkw = self._kw('detect', case['dflags'])
            if dkw is not None and 'report' in dkw:
                dkw['report'] = 'records'      # (the documented meaning, not read through the translation under test: detection reports records)
            for path in [p for p in (inp2, inp) if p]:
                if dkw is None:
                    break
                oext = rng.choice(['csv', 'parquet'])
                o1, o2 = 'o_cli.' + oext, 'o_lib.' + oext
                for o in (o1, o2):
                    if os.path.exists(o):
                        os.remove(o)
                tail = []
                if case.get('ofields'):
                    tail = ['--output-fields'] + list(case['ofields'])
                    dkw = dict(dkw, output_fields=list(case['ofields']))
                    self.count('detect_with_named_output_fields')
                rc, out, err, v = self._cli(['detect'] + case['dflags'] + [path, 'c.tdda', o1] + tail)
                with contextlib.redirect_stderr(io.StringIO()), contextlib.redirect_stdout(io.StringIO()):
                    try:
                        lv = detect_df(load_df(path), 'c.tdda', outpath=o2, rownumber_is_index=False, **dkw)
                    except Exception as e:
                        lv = e
                if isinstance(lv, Exception):
                    if rc == 0:
                        fail('detect-differs', 'library raises %s, command line exits 0' % type(lv).__name__, 'detect-differs:lib-raises')
                    continue
                if rc != 0 or v is None:
                    fail('detect-fails', 'detect %s exits %r: %s' % (case['dflags'], rc, err[-200:]), 'detect-fails:%s' % rc)
                    continue
                if (v.passes, v.failures) != (lv.passes, lv.failures):
                    fail('detect-differs', 'counts differ', 'detect-differs:counts')
                elif out != str(lv) + '\n':
                    fail('detect-differs', 'printed summary differs from str(detect_df(...)) with the same keywords (flags %s): %r / %r'
                         % (case['dflags'], out[-160:], str(lv)[-160:]), 'detect-differs:report')
                if os.path.exists(o1) != os.path.exists(o2):
                    fail('detect-differs', 'output file written by one of command line / library only', 'detect-differs:file-presence')
                elif os.path.exists(o1):
                    same = (open(o1, 'rb').read() == open(o2, 'rb').read()) if oext == 'csv' else \
                        pd.read_parquet(o1).equals(pd.read_parquet(o2))
                    if not same:
                        fail('detect-differs', 'detection output differs (flags %s)' % case['dflags'], 'detect-differs:output')
                    # the row numbers written are the records' positions in the input, as the detection object has them
                    try:
                        dfo = pd.read_csv(o1) if oext == 'csv' else pd.read_parquet(o1)
                        det = lv.detected()
                    except Exception:
                        dfo = det = None
                    if dfo is not None and det is not None and 'RowNumber' in dfo.columns and isinstance(det.index, pd.RangeIndex) \
                            or (dfo is not None and det is not None and 'RowNumber' in dfo.columns and det.index.dtype.kind == 'i'):
                        want_rows = [int(i_) + 1 for i_ in det.index]
                        if [int(x_) for x_ in dfo['RowNumber']] != want_rows:
                            fail('detect-differs', 'RowNumber column of the output file %r, records detected (in memory) %r'
                                 % (list(dfo['RowNumber'])[:8], want_rows[:8]), 'detect-differs:row-numbers')
                        self.count('row_numbers_checked')
            # --- failing invocations leave nothing behind
            bad = [
                ('missing-input', ['discover', 'nosuch.' + ext, 'x1.tdda'], 'x1.tdda'),
                ('missing-input', ['verify', 'nosuch.' + ext, 'c.tdda'], None),
                ('missing-input', ['detect', 'nosuch.' + ext, 'c.tdda', 'x2.csv'], 'x2.csv'),
                ('missing-constraints', ['verify', inp, 'nosuch.tdda'], None),
                ('missing-constraints', ['detect', inp, 'nosuch.tdda', 'x3.csv'], 'x3.csv'),
                ('unknown-flag', ['discover', '--bogus', inp, 'x4.tdda'], 'x4.tdda'),
                ('unknown-flag', ['detect', inp, 'c.tdda', 'x5.csv', '--bogus'], 'x5.csv'),
                ('unknown-flag', ['verify', inp, 'c.tdda', '-v'], None),              # (flags of the tool itself, not of a command)
                ('unknown-flag', ['discover', inp, 'x9.tdda', '--version'], 'x9.tdda'),
                ('unknown-flag', ['detect', '-v', inp, 'c.tdda', 'x10.csv'], 'x10.csv'),
                ('unknown-flag', ['verify', '--help-me', inp, 'c.tdda'], None),
                ('contradictory', ['discover', '-r', '-R', inp, 'x6.tdda'], 'x6.tdda'),
                ('contradictory', ['detect', inp2 or inp, 'c.tdda', 'x7.csv', '--per-constraint', '--no-per-constraint'], 'x7.csv'),
                ('contradictory', ['detect', inp2 or inp, 'c.tdda', 'x8.csv', '--output-fields', 'a', '--no-output-fields'], 'x8.csv'),
                ('contradictory', ['verify', inp, 'c.tdda', '--all', '--fields'], None),
            ]
            for what, argv, outfile in rng.sample(bad, 8):
                rc, out, err, _ = self._cli(argv)
                if rc == 0:
                    fail('bad-invocation-accepted', '%s: %s exits 0' % (what, argv), 'bad-invocation-accepted:' + what)
                if outfile and os.path.exists(outfile):
                    fail('output-left-behind', '%s: %s leaves %s' % (what, argv, outfile), 'output-left-behind:' + what)
            # --- a few real processes
            if case.get('subprocess'):
                env = dict(os.environ, PYTHONPATH=core.REPO)
                p = subprocess.run([sys.executable, '-m', 'tdda.constraints.console', 'discover'] + rflag + [inp, 'p.tdda'],
                                   capture_output=True, text=True, env=env)
                if p.returncode != 0 or strip_meta(open('p.tdda').read()) != want:
                    fail('process-differs', 'python -m tdda.constraints.console discover: exit %s' % p.returncode)
                p = subprocess.run([sys.executable, '-m', 'tdda.constraints.console', 'verify', inp, 'nosuch.tdda'],
                                   capture_output=True, text=True, env=env)
                if p.returncode == 0:
                    fail('bad-invocation-accepted', 'process: missing constraints file exits 0', 'bad-invocation-accepted:process')
                p = subprocess.run([sys.executable, '-m', 'tdda.constraints.console', 'verify', inp, 'c.tdda', '--bogus'],
                                   capture_output=True, text=True, env=env)
                if p.returncode == 0:
                    fail('bad-invocation-accepted', 'process: unknown flag exits 0', 'bad-invocation-accepted:process')
        finally:
            os.chdir(cwd)
            shutil.rmtree(d, ignore_errors=True)
        return F

    def _kw(self, cmd, flags):
        """library keywords for a flag set (through the real translation); None if the flag set is rejected"""
        files = ['in.csv', 'c.tdda'] + (['o.csv'] if cmd == 'detect' else [])
        rc, _, _, res = quiet_run(PARAMS[cmd], list(flags) + files)
        if rc != 0 or res is None:
            return None
        kw = dict(res)
        for k in ('df_path', 'constraints_path', 'outpath'):
            kw.pop(k, None)
        return kw

    def documented_oracle(self, case, fail):
        """every flag spelled in the help text of a command is accepted by that command"""
        import re
        from tdda.constraints import flags as fl
        for cmd, text in (('discover', fl.DISCOVER_HELP), ('verify', fl.VERIFY_HELP), ('detect', fl.DETECT_HELP)):
            files = ['in.csv', 'c.tdda'] + (['o.csv'] if cmd == 'detect' else [])
            for line in text.splitlines():
                m = re.match(r'\s*\* (-.*)$', line)
                if not m:
                    continue
                for sp in re.split(r',\s*| or ', m.group(1)):
                    toks = sp.split()
                    flag = toks[0]
                    args = [flag] + (['0.5'] if 'E' in toks[1:] else ['a'] if any(t.startswith('FIELD') for t in toks[1:]) else [])
                    self.count('documented_spelling')
                    rc, _, err, res = quiet_run(PARAMS[cmd], files + args)
                    if rc != 0 or res is None:
                        fail('documented-flag-rejected', 'tdda %s %s (documented in its help text) exits %r' % (cmd, ' '.join(args), rc),
                             'documented-flag-rejected:%s:%s' % (cmd, flag))

    def flags_oracle(self, case, fail):
        if case.get('documented'):
            return self.documented_oracle(case, fail)
        """documented spellings are accepted; unknown flags and contradictions are not"""
        argv, cmd = case['argv'], case['cmd']
        rc, out, err, res = quiet_run(PARAMS[cmd], list(argv))
        toks = set(argv)
        contradictory = (
            (cmd == 'discover' and toks & {'-r', '--rex'} and toks & {'-R', '--norex'}) or
            (cmd != 'discover' and toks & {'-a', '--all'} and toks & {'-f', '--fields'}) or
            (cmd == 'detect' and '--per-constraint' in toks and '--no-per-constraint' in toks) or
            (cmd == 'detect' and '--output-fields' in toks and toks & {'--no-output-fields', '--no-original-fields'}))
        unknown = bool(toks & set(UNKNOWN))
        if (contradictory or unknown) and rc == 0:
            fail('bad-invocation-accepted', '%s %s accepted (%s)' % (cmd, argv, 'contradictory' if contradictory else 'unknown flag'),
                 'bad-invocation-accepted:' + ('contradictory' if contradictory else 'unknown-flag'))
        if str(rc).startswith('EXC'):
            fail('flags-raise', '%s %s: %s' % (cmd, argv, rc), 'flags-raise:' + str(rc))
        return None


PROP = C17
