"""C19 - tagged runs execute exactly the tagged tests; listing runs none."""
import contextlib
import io
import json
import os
import re
import shutil
import subprocess
import sys
import tempfile
import types
import unittest
from concurrent.futures import ThreadPoolExecutor

import core

core.setup_repo_path()
from tdda.referencetest import referencetestcase as rtc  # noqa: E402
from tdda.referencetest.referencetest import tag  # noqa: E402

PROG = 'prog.py'
CLUSTERS = ['-1', '-0', '-W', '-v', '-q', '-f', '-v1', '-1v', '-f0', '-W1', '-vW', '-10', '-b']
LONG_TDDA = ['--tagged', '--istagged', '--write-all', '--W', '--wquiet', '-wquiet']
LONG_OTHER = ['--verbose', '--failfast', '--quiet', '--locals']
WRITE = ['-w', '--w', '--write']
KINDS = ['table', 'graph', 'csv', 'a,b', 'table,graph', 'table,', 'table,,other', ',csv', 'table, other']   # (empty names are names)
NAMES = ['TestA', 'TestB', 'TestC']


def gen_argv(rng, shape=None):
    """shape 'doc' = documented layout (single-dash clusters first); 'free' = any order."""
    shape = shape or rng.choice(['doc', 'doc', 'free'])
    lead = [rng.choice(CLUSTERS) for _ in range(rng.choice([0, 0, 1, 1, 2, 3]))]
    mid = []
    picked = []
    for t in rng.sample(LONG_TDDA, rng.choice([0, 0, 1, 1, 2])):
        # never two spellings of the same option on one command line
        syn = {'--write-all': '--W', '--W': '--write-all', '--wquiet': '-wquiet', '-wquiet': '--wquiet'}
        if syn.get(t) not in picked:
            picked.append(t)
    mid += picked
    for _ in range(rng.choice([0, 0, 1, 2])):
        mid.append(rng.choice(LONG_OTHER + NAMES))
    rng.shuffle(mid)
    body = lead + mid
    if shape == 'free':
        rng.shuffle(body)
    tail = []
    if rng.random() < 0.3:
        tail = [rng.choice(WRITE)] + [rng.choice(KINDS) for _ in range(rng.choice([0, 1, 1, 2]))]
        if len(tail) > 1 and rng.random() < 0.25:
            # a flag written after the kinds (the documentation leaves open what it is: only the tie with the model reads
            # these command lines, the statement-level oracle does not)
            tail.insert(rng.randint(2, len(tail)), rng.choice(['-1', '-0', '-v1', '-W']))
    return [PROG] + body + tail


def flag_after_write(argv):
    """a token that looks like an option after the write option (kind or flag? the documentation does not say)"""
    for i, a in enumerate(argv):
        if a in WRITE:
            return any(b.startswith('-') for b in argv[i + 1:])
    return False


def spec_argv(argv):
    """The statement-level expectation: every accepted spelling is honoured wherever it stands before the
    write option; everything after --write/-w/--w is a list of kinds."""
    out = [argv[0]]
    tagged = check = regen_all = quiet = False
    kinds = []
    i = 1
    err = False
    while i < len(argv):
        a = argv[i]
        if a in WRITE:
            rest = argv[i + 1:]
            if not rest:
                err = True
            for r in rest:
                kinds += r.split(',')
            break
        if a.startswith('-') and not a.startswith('--') and a not in ('-wquiet',):
            if '1' in a[1:]:
                tagged = True
            if '0' in a[1:]:
                check = True
            if 'W' in a[1:]:
                regen_all = True
            s = '-' + ''.join(c for c in a[1:] if c not in 'W10')
            if s != '-':
                out.append(s)
        elif a == '--tagged':
            tagged = True
        elif a == '--istagged':
            check = True
        elif a in ('--write-all', '--W'):
            regen_all = True
        elif a in ('--wquiet', '-wquiet'):
            quiet = True
        elif a != '':
            out.append(a)
        i += 1
    return {'argv': out, 'tagged': tagged, 'check': check, 'quiet': quiet,
            'regen': sorted(set(kinds)) + ([None] if regen_all else []), 'err': err}


def run_set_flags(argv):
    calls = []
    orig = rtc.ReferenceTestCase.__dict__['set_regeneration'] if 'set_regeneration' in rtc.ReferenceTestCase.__dict__ else None
    saved_verbose = rtc.ReferenceTestCase.verbose

    def rec(cls, kind=None, regenerate=True):
        calls.append(kind)
    rtc.ReferenceTestCase.set_regeneration = classmethod(rec)
    try:
        try:
            a, t, c = rtc._set_flags_from_argv(list(argv))
            res = {'argv': list(a), 'tagged': bool(t), 'check': bool(c),
                   'quiet': rtc.ReferenceTestCase.verbose is False, 'regen': list(calls)}
        except Exception as e:
            res = {'exc': type(e).__name__}
    finally:
        if orig is None:
            del rtc.ReferenceTestCase.set_regeneration
        else:
            rtc.ReferenceTestCase.set_regeneration = orig
        rtc.ReferenceTestCase.verbose = saved_verbose
        if 'verbose' in rtc.ReferenceTestCase.__dict__ and saved_verbose is True:
            pass
    return res


def gen_module(rng):
    n = rng.randint(1, 3)
    classes = []
    for i in range(n):
        name = NAMES[i]
        base = None
        if i > 0 and rng.random() < 0.35:
            base = rng.randrange(i)
        own = []
        for m in rng.sample(['test_a', 'test_b', 'test_c', 'test_d'], rng.randint(0, 3)):
            ent = [m, rng.random() < 0.4]
            if rng.random() < 0.2:
                # another decorator on the same method: under the tag ('tag-outside') or over it ('tag-inside')
                ent.append(rng.choice(['wraps:tag-outside', 'wraps:tag-inside', 'patch:tag-outside', 'patch:tag-inside']))
            own.append(ent)
        classes.append({'name': name, 'base': base, 'tag': rng.random() < 0.25, 'own': own})
    return classes


def wrapper_of(kind):
    import functools
    from unittest import mock
    if kind.startswith('patch'):
        return mock.patch('os.getcwd')

    def deco(fn):
        @functools.wraps(fn)
        def inner(*a, **kw):
            return fn(*a, **kw)
        return inner
    return deco


def build_classes(classes, log=None):
    """Real ReferenceTestCase subclasses for a module description."""
    built = []
    for c in classes:
        ns = {}
        for ent in c['own']:
            m, tg = ent[0], ent[1]
            wrap = ent[2] if len(ent) > 2 else None

            def make(cname=c['name'], mname=m):
                def test(self, *extra):
                    if log is not None:
                        log.append('%s.%s' % (type(self).__name__, mname))
                test.__name__ = mname
                return test
            f = make()
            if wrap and wrap.endswith('tag-inside') and tg:
                f = tag(f)
            if wrap:
                f = wrapper_of(wrap)(f)
            if tg and not (wrap and wrap.endswith('tag-inside')):
                f = tag(f)
            ns[m] = f
        bases = (built[c['base']],) if c['base'] is not None else (rtc.ReferenceTestCase,)
        k = type(c['name'], bases, ns)
        if c['tag']:
            k = tag(k)
        built.append(k)
    return built


def flatten(suite):
    out = []
    for t in suite:
        if isinstance(t, unittest.TestSuite):
            out += flatten(t)
        else:
            out.append([type(t).__name__, t._testMethodName])
    return out


def expected_selection(classes, tagged, check, names=None):
    """Independent reading of the statement: tests tagged themselves or through (an ancestor of) their class."""
    def cls_tagged(i):
        c = classes[i]
        return c['tag'] or (c['base'] is not None and cls_tagged(c['base']))

    def methods(i):
        c = classes[i]
        d = dict(methods(c['base'])) if c['base'] is not None else {}
        for ent in c['own']:
            d[ent[0]] = ent[1]
        return d
    run, listed = [], []
    for i, c in enumerate(classes):
        if names and c['name'] not in names:
            continue
        ms = methods(i)
        tg = [m for m in sorted(ms) if cls_tagged(i) or ms[m]]
        if tg:
            listed.append(c['name'])
        if check:
            continue
        for m in sorted(ms):
            if not tagged or cls_tagged(i) or ms[m]:
                run.append('%s.%s' % (c['name'], m))
    return sorted(run), sorted(listed) if check else []


def all_methods(classes, i):
    c = classes[i]
    d = dict(all_methods(classes, c['base'])) if c['base'] is not None else {}
    for ent in c['own']:
        d[ent[0]] = ent[1]
    return d


def class_tagged(classes, i):
    c = classes[i]
    return c['tag'] or (c['base'] is not None and class_tagged(classes, c['base']))


def expected_for_method_name(classes, tagged, check, name):
    """A single Class.method name.  Returns the list of tests that must run, or None where the statement leaves it
    open (an untagged method named individually under the tagged option).  With the list-tagged option nothing runs."""
    cname, mname = name.split('.')
    i = [k for k, c in enumerate(classes) if c['name'] == cname][0]
    if check:
        return []
    if tagged and not (class_tagged(classes, i) or all_methods(classes, i)[mname]):
        return None
    return [name]


MODULE_TEMPLATE = '''
import sys
sys.path.insert(0, %(repo)r)
import functools
from unittest import mock
from tdda.referencetest import ReferenceTestCase, tag
def _wrapping(fn):
    @functools.wraps(fn)
    def inner(*a, **kw):
        return fn(*a, **kw)
    return inner
LOG = %(log)r
def _log(s):
    with open(LOG, 'a') as f:
        f.write(s + '\\n')
%(classes)s
if __name__ == '__main__':
    PRIOR = %(prior)r
    if PRIOR is not None:
        # an earlier run in the same process (a driver script that runs the tests twice, with other options)
        ReferenceTestCase.main(argv=[sys.argv[0]] + PRIOR, exit=False)
        sys.stdout.flush()
        sys.stderr.flush()
        print('=====PRIOR-END=====', flush=True)
        _log('=====PRIOR-END=====')
    ReferenceTestCase.main()
'''


def module_source(classes, logpath, before=None, prior=None):
    """`before`: {class index: source text placed before that class (len(classes) = after the last one)}"""
    parts = []
    for ci, c in enumerate(classes):
        if before and before.get(ci):
            parts.append(before[ci])
        base = classes[c['base']]['name'] if c['base'] is not None else 'ReferenceTestCase'
        body = []
        for ent in c['own']:
            m, tg = ent[0], ent[1]
            wrap = ent[2] if len(ent) > 2 else None
            decos = []
            wline = None
            if wrap:
                wline = "    @mock.patch('os.getcwd')\n" if wrap.startswith('patch') else '    @_wrapping\n'
            if tg and not (wrap and wrap.endswith('tag-inside')):
                decos.append('    @tag\n')
            if wline:
                decos.append(wline)
            if tg and wrap and wrap.endswith('tag-inside'):
                decos.append('    @tag\n')
            body.append('%s    def %s(self, *extra):\n        _log(type(self).__name__ + ".%s")\n' % (''.join(decos), m, m))
        if not body:
            body = ['    pass\n']
        parts.append('%sclass %s(%s):\n%s' % ('@tag\n' if c['tag'] else '', c['name'], base, ''.join(body)))
    if before and before.get(len(classes)):
        parts.append(before[len(classes)])
    return MODULE_TEMPLATE % {'repo': core.REPO, 'log': logpath, 'classes': '\n'.join(parts), 'prior': prior}


def run_module(classes, args, prior=None):
    d = tempfile.mkdtemp(prefix='c19_')
    try:
        log = os.path.join(d, 'log.txt')
        mod = os.path.join(d, 'mod.py')
        with open(mod, 'w') as f:
            f.write(module_source(classes, log, prior=prior))
        p = subprocess.run(['/venv/bin/python', mod] + args, cwd=d, stdout=subprocess.PIPE, stderr=subprocess.PIPE,
                           text=True, timeout=120)
        ran = []
        if os.path.exists(log):
            ran = [l.strip() for l in open(log) if l.strip()]
        out = p.stdout
        if prior is not None:
            # only what the second run did counts
            ran = ran[ran.index('=====PRIOR-END=====') + 1:] if '=====PRIOR-END=====' in ran else ran
            out = out.split('=====PRIOR-END=====\n', 1)[-1]
        return {'rc': p.returncode, 'ran': ran, 'stdout': out, 'stderr': p.stderr[-600:]}
    finally:
        shutil.rmtree(d, ignore_errors=True)


class C19(core.Prop):
    pid = 'C19'
    lean_modules = ['TddaVerif.Props.C19']
    theorems = ['TddaVerif.Props.C19.' + t for t in ['parseArgv_spec', 'write_needs_kinds', 'tagged_selects_exactly',
        'untagged_selects_all', 'selected_once', 'check_runs_none', 'check_lists_exactly', 'selectTests_mem', 'pytest_no_option_untouched', 'pytest_tagged_selects_exactly', 'pytest_tagged_mem_iff', 'pytest_tagged_nodup', 'pytest_check_runs_none', 'pytest_check_lists_exactly', 'pytest_check_lists_classes_once']]
    quick_n = 1500
    thorough_n = 30000
    n_sub_quick = 48
    n_sub_thorough = 600
    rule = ('cases: (argv) command lines over the flag alphabet (-1 -0 -W clusters mixed with unittest letters, '
            '--tagged --istagged --write-all --W --wquiet -wquiet, -w/--w/--write + kinds, unittest long options, class '
            'names), documented layout and free order; (module) 1..3 test classes with single inheritance, class and '
            'method tags, loaded in-process through TaggedTestLoader; (run) python module.py <argv> in a subprocess with a '
            'side-effect log. non-trivial = argv with >= 2 arguments / module with >= 1 tagged and >= 1 untagged test; '
            'distinct by content')
    trusted_base = [
        'unittest (loader, option parsing, class-name narrowing) is not modelled; the subprocess oracle runs the real thing',
        'single inheritance only in the loader model (multiple inheritance / MRO not modelled)',
    ]

    def corpus(self):
        out = [{'kind': 'argv', 'argv': a} for a in (
            [PROG, '-1'], [PROG, '-v', '-1'], [PROG, '-w', 'table'], [PROG, 'TestA', '-1'], [PROG, '-W'],
            [PROG, '-1v', '--tagged', 'TestA'], [PROG, '--write', 'a,b', 'c'], [PROG, '--write'], [PROG, '-0'],
            [PROG, '--istagged', '-v'], [PROG, '-'], [PROG, ''], [PROG, '--W', '--wquiet'], ['-w', 'x'], [PROG])]
        return out

    def gen_case(self, rng, i):
        r = rng.random()
        if r < 0.15:
            return gen_pyfilter(rng)
        if r < 0.6:
            return {'kind': 'argv', 'argv': gen_argv(rng)}
        c = {'kind': 'module', 'classes': gen_module(rng), 'tagged': rng.random() < 0.6, 'check': rng.random() < 0.3}
        if rng.random() < 0.3:
            # loaded by name, as unittest does for names on the command line: class names and Class.method names
            cl = c['classes']
            cands = [k['name'] for k in cl] + ['%s.%s' % (k['name'], m) for i, k in enumerate(cl) for m in sorted(all_methods(cl, i))]
            c['names'] = sorted(set(rng.choice(cands) for _ in range(rng.choice([1, 1, 2]))))
            if len([n for n in c['names'] if '.' in n]) > 1 or (len(c['names']) > 1 and any('.' in n for n in c['names'])):
                c['names'] = c['names'][:1]
        return c

    def model_ops(self, case):
        if case['kind'] == 'pyfilter':
            return [run_pyfilter(case)[1]]
        if case['kind'] == 'argv':
            return [{'op': 'c19.parse_argv', 'argv': case['argv']}]
        if case.get('names'):
            return []       # narrowing by name is unittest's: not modelled, oracle only
        plain = [dict(c, own=[ent[:2] for ent in c['own']]) for c in case['classes']]    # (other decorators are not the model's business)
        return [{'op': 'c19.select', 'classes': plain, 'tagged': case['tagged'], 'check': case['check']}]

    def impl_outputs(self, case):
        if case['kind'] == 'pyfilter':
            return [run_pyfilter(case)[0]]
        if case['kind'] == 'argv':
            return [run_set_flags(case['argv'])]
        built = build_classes(case['classes'])
        mod = types.ModuleType('m')
        for k in built:
            k.__module__ = 'm'
            setattr(mod, k.__name__, k)
        printed = []
        if case['tagged'] or case['check']:
            loader = rtc.TaggedTestLoader(case['check'], printer=printed.append)
        else:
            loader = unittest.TestLoader()
        if case.get('names'):
            suite = loader.loadTestsFromNames(case['names'], mod)
        else:
            suite = loader.loadTestsFromModule(mod)
        return [{'run': flatten(suite), 'listed': sorted(p.split('.')[-1] for p in printed)}]

    def canon_model(self, case, outs):
        res = []
        for o in outs:
            if 'ok' not in o:
                res.append({'exc': o.get('exc')})
                continue
            v = o['ok']
            if case['kind'] == 'module':
                v = {'run': v['run'], 'listed': sorted(v['listed'])}
            res.append(v)
        return res

    def nontrivial_key(self, case):
        self.count('kind_' + case['kind'])
        if case['kind'] == 'pyfilter':
            return json.dumps(case, sort_keys=True) if (case['run'] or case['show']) and len(case['items']) >= 2 else None
        if case['kind'] == 'argv':
            return json.dumps(case['argv']) if len(case['argv']) >= 3 else None
        t = [ent[1] or c['tag'] for c in case['classes'] for ent in c['own']]
        return json.dumps(case, sort_keys=True) if (any(t) and not all(t)) else None

    def oracle(self, case):
        F = []
        fail = lambda clause, detail, key=None: F.append(core.Failure(clause, case, detail, key or clause))
        if case['kind'] == 'pyfilter':
            impl, op = run_pyfilter(case)
            if 'exc' in impl:
                fail('pytest-filter-raises', impl['exc'])
                return F
            cl = case['classes']
            want_run, want_listed = [], []
            for it in case['items']:
                if it['cls'] is None:
                    tg = it['fn_tagged']
                    nm = it['name']
                else:
                    tg = class_tagged(cl, it['cls']) or all_methods(cl, it['cls'])[it['name']]
                    nm = '%s.%s' % (cl[it['cls']]['name'], it['name'])
                if tg:
                    label = it['name'] if it['cls'] is None else cl[it['cls']]['name']
                    if label not in want_listed:
                        want_listed.append(label)
                if not case['show'] and (tg or not case['run']):
                    want_run.append(nm)
            if impl['kept'] != want_run:
                fail('pytest-filter-run', 'options run=%s show=%s: kept %r expected %r' % (case['run'], case['show'], impl['kept'], want_run),
                     'pytest-filter-run')
            if case['show'] and impl['printed'] != want_listed:
                fail('pytest-filter-listed', 'listed %r expected %r' % (impl['printed'], want_listed), 'pytest-filter-listed')
            return F
        if case['kind'] == 'argv':
            argv = case['argv']
            if not argv or argv[0] in WRITE + LONG_TDDA or argv[0].startswith('-'):
                return F   # no program name: not a command line
            if flag_after_write(argv):
                return F
            want = spec_argv(argv)
            got = run_set_flags(argv)
            if want['err']:
                if 'exc' not in got:
                    fail('argv-write-needs-kinds', 'no error for --write without kinds: %r' % got)
                return F
            if 'exc' in got:
                fail('argv-raises', '%r raised %s' % (argv, got['exc']))
                return F
            g = dict(got, regen=sorted({k for k in got['regen'] if k is not None}) + ([None] if None in got['regen'] else []))
            w = {k: want[k] for k in ('argv', 'tagged', 'check', 'quiet', 'regen')}
            if g != w:
                # classify
                seen_pos = False
                late = False
                for a in argv[1:]:
                    if a in WRITE:
                        break
                    sd = a.startswith('-') and not a.startswith('--')
                    if not sd:
                        seen_pos = True
                    elif seen_pos and any(ch in a[1:] for ch in 'W10') and a != '-wquiet':
                        late = True
                key = 'argv:single-dash-flag-after-non-single-dash-argument' if late else 'argv'
                fail('argv', '%r -> %r, expected %r' % (argv, g, w), key)
            return F
        # module: loader selection against the independent expectation, in-process
        got = self.impl_outputs(case)[0]
        got_run = sorted('%s.%s' % (a, b) for a, b in got['run'])
        names = case.get('names')
        if names and '.' in names[0]:
            self.count('module_method_name')
            run = expected_for_method_name(case['classes'], case['tagged'] or case['check'], case['check'], names[0])
            if not (case['tagged'] or case['check']):
                run = [names[0]]
            if run is not None and got_run != run:
                fail('select-run', 'loading %r selects %r, expected %r' % (names, got_run, run),
                     'select-run:method-name' + (':list-tagged' if case['check'] else ''))
            return F
        run, listed = expected_selection(case['classes'], case['tagged'], case['check'], names)
        if got_run != run:
            fail('select-run', 'loader selects %r, expected %r' % (got_run, run))
        if len(got_run) != len(set(got_run)):
            fail('select-once', 'a test is selected twice: %r' % got_run)
        if case['check'] and got['listed'] != listed:
            fail('select-listed', 'listed %r expected %r' % (got['listed'], listed))
        return F

    # ---- subprocess part, run once per check from corpus() would be too slow per-case; done in translate hook
    def translate(self):
        """(not a translator) runs the subprocess oracle batch and stores failures for oracle_extra."""
        return []


def subprocess_cases(rng, n):
    out = []
    for _ in range(n):
        classes = gen_module(rng)
        mode = rng.choice(['none', 'tagged', 'check', 'both'])
        args = []
        if rng.random() < 0.5:
            args.append(rng.choice(['-v', '-q', '-f']))
        if mode in ('tagged', 'both'):
            args.append(rng.choice(['-1', '--tagged']))
        if mode in ('check', 'both'):
            args.append(rng.choice(['-0', '--istagged']))
        # single-dash first (documented layout), then long options
        args.sort(key=lambda a: (a.startswith('--'), 0))
        names = None
        if rng.random() < 0.35:
            names = [rng.choice([c['name'] for c in classes])]
            args += names
        elif rng.random() < 0.2:
            # a name that does not exist (a renamed class, a removed test): unittest reports an error, whatever the tag options
            names = [rng.choice(['TestRenamed', classes[0]['name'] + '.test_gone'])]
            if rng.random() < 0.7:
                names = [rng.choice(classes)['name']] + names
            if rng.random() < 0.6 and mode in ('none', 'check'):
                mode = 'tagged'
                args.insert(0, rng.choice(['-1', '--tagged']))
                args.sort(key=lambda a: (a.startswith('--'), 0))
            args += names
            out.append({'kind': 'run', 'classes': classes, 'args': args, 'names': names, 'missing_name': True,
                        'tagged': mode in ('tagged', 'both'), 'check': mode in ('check', 'both')})
            continue
        elif rng.random() < 0.3:
            # an individual test named as Class.method
            cands = ['%s.%s' % (c['name'], m) for i, c in enumerate(classes) for m in sorted(all_methods(classes, i))]
            if cands:
                names = [rng.choice(cands)]
                args += names
        if rng.random() < 0.3:
            args.append(rng.choice(['--verbose', '--failfast']))
        case = {'kind': 'run', 'classes': classes, 'args': args, 'names': names,
                'tagged': mode in ('tagged', 'both'), 'check': mode in ('check', 'both')}
        r_ = rng.random()
        if r_ < 0.2:
            case['prior'] = rng.choice([['-0'], ['-1'], ['--istagged'], ['--tagged'], []])
        elif r_ < 0.4 and not (names and '.' in names[0]):
            # unittest's -k keeps its usual meaning next to the tag options
            case['pattern'] = rng.choice(['test_a', 'test_b', 'test_c', 'TestA', 'TestB', 'B.test', 'nomatch', 'test_*', '*A.test_b'])
            pos = 0
            while pos < len(args) and args[pos].startswith('-') and not args[pos].startswith('--'):
                pos += 1
            case['args'] = args[:pos] + ['-k', case['pattern']] + args[pos:]
        out.append(case)
    return out


def oracle_run(case):
    F = []
    fail = lambda clause, detail, key=None: F.append(core.Failure(clause, case, detail, key or clause))
    r = run_module(case['classes'], case['args'], prior=case.get('prior'))
    if case.get('missing_name'):
        # "class names ... keep their usual meaning": a name unittest cannot resolve is an error of the run
        if not case['check'] and r['rc'] == 0:
            fail('run-missing-name', 'args %r name a test that does not exist, and the run exits 0 (%s)'
                 % (case['args'], (r['stderr'] or '')[-160:]), 'run-missing-name')
        return F
    if case['names'] and '.' in case['names'][0]:
        run = expected_for_method_name(case['classes'], case['tagged'], case['check'], case['names'][0])
        if run is not None and sorted(r['ran']) != run:
            fail('run-executed', 'args %r executed %r expected %r (rc=%s stderr=%s)'
                 % (case['args'], sorted(r['ran']), run, r['rc'], r['stderr'][-200:]),
                 'run-executed:method-name' + (':list-tagged' if case['check'] else ''))
        return F
    run, listed = expected_selection(case['classes'], case['tagged'], case['check'], case['names'])
    if case.get('pattern'):
        import fnmatch
        pat = case['pattern'] if '*' in case['pattern'] else '*%s*' % case['pattern']
        keep = lambda cm: fnmatch.fnmatchcase('__main__.' + cm, pat)
        if case['check']:
            # a class is named when one of its tagged tests is among those the pattern keeps
            full, _ = expected_selection(case['classes'], True, False, case['names'])
            listed = sorted({cm.split('.')[0] for cm in full if keep(cm)})
        run = [cm for cm in run if keep(cm)]
    if sorted(r['ran']) != run:
        fail('run-executed', 'args %r executed %r expected %r (rc=%s stderr=%s)'
             % (case['args'], sorted(r['ran']), run, r['rc'], r['stderr'][-200:]))
    if case['check']:
        got = sorted(l.split('.')[-1] for l in r['stdout'].split('\n') if l.strip().startswith('__main__.'))
        if got != listed:
            fail('run-listed', 'args %r listed %r expected %r' % (case['args'], got, listed))
    return F


def gen_pyfilter(rng):
    """a collection as pytest hands it to the library's filter: methods of classes (with single inheritance, class and
    method tags) and module-level functions, in file order"""
    classes = gen_module(rng)
    items = []
    order = list(range(len(classes))) + ['fn'] * rng.randint(0, 3)
    rng.shuffle(order)
    nfn = 0
    for o in order:
        if o == 'fn':
            items.append({'name': 'test_fn%d' % nfn, 'cls': None, 'fn_tagged': rng.random() < 0.4})
            nfn += 1
        else:
            for m in sorted(all_methods(classes, o)):
                items.append({'name': m, 'cls': o})
    return {'kind': 'pyfilter', 'classes': [dict(c, own=[e[:2] for e in c['own']]) for c in classes], 'items': items,
            'run': rng.random() < 0.6, 'show': rng.random() < 0.35}


def run_pyfilter(case):
    """(implementation result, model op): referencepytest.tagged on stand-ins for pytest items whose .obj are real bound
    methods of real classes / real functions carrying the real tag"""
    from tdda.referencetest import referencepytest
    built = build_classes(case['classes'])
    for k in built:
        k.__module__ = 'm'

    class It:
        def __init__(self, name, obj):
            self.name, self.obj = name, obj

    items, minfo = [], []
    for it in case['items']:
        if it['cls'] is None:
            def fn():
                pass
            fn.__name__ = it['name']
            fn.__module__ = 'm'
            f = tag(fn) if it['fn_tagged'] else fn
            items.append(It(it['name'], f))
            minfo.append({'name': it['name'], 'cls': None, 'cls_tagged': False, 'fn_tagged': bool(getattr(f, '_tagged', None))})
        else:
            k = built[it['cls']]
            inst = k(it['name'])
            bound = getattr(inst, it['name'])
            items.append(It('%s.%s' % (k.__name__, it['name']), bound))
            minfo.append({'name': '%s.%s' % (k.__name__, it['name']), 'cls': k.__name__,
                          'cls_tagged': bool(getattr(k, '_tagged', None)), 'fn_tagged': bool(getattr(bound, '_tagged', None))})

    class Cfg:
        def getoption(self_, name, default=None):
            return {'--tagged': case['run'], '--istagged': case['show']}.get(name, default)
    out = io.StringIO()
    try:
        with contextlib.redirect_stdout(out):
            referencepytest.tagged(Cfg(), items)
        impl = {'kept': [i.name for i in items], 'printed': [l.rsplit('.', 1)[-1] for l in out.getvalue().split('\n') if l.strip()]}
    except Exception as e:   # noqa
        impl = {'exc': type(e).__name__}
    return impl, {'op': 'c19.pytest_filter', 'run': case['run'], 'show': case['show'], 'items': minfo}


CONFTEST = '''
import sys
sys.path.insert(0, %(repo)r)
from tdda.referencetest import referencepytest


def pytest_addoption(parser):
    referencepytest.addoption(parser)


def pytest_collection_modifyitems(session, config, items):
    referencepytest.tagged(config, items)
'''


def pytest_cases(rng, n):
    """the same kind of module collected by pytest through the library's collection filter, with module-level test
    functions before, between and after the classes"""
    out = []
    for _ in range(n):
        classes = [dict(c, own=[e[:2] for e in c['own']]) for c in gen_module(rng)]
        funcs = [['test_fn%d' % i, rng.random() < 0.4, rng.randint(0, len(classes))] for i in range(rng.randint(0, 3))]
        out.append({'kind': 'pytest', 'classes': classes, 'funcs': funcs, 'mode': rng.choice(['none', 'tagged', 'tagged', 'check'])})
    return out


def oracle_pytest(case):
    F = []
    fail = lambda clause, detail, key=None: F.append(core.Failure(clause, case, detail, key or clause))
    d = tempfile.mkdtemp(prefix='c19p_')
    try:
        log = os.path.join(d, 'log.txt')
        before = {}
        for name, tg, pos in case['funcs']:
            i = min(pos, len(case['classes']))
            before[i] = before.get(i, '') + '%sdef %s():\n    _log("%s")\n' % ('@tag\n' if tg else '', name, name)
        text = module_source(case['classes'], log, before).split("if __name__ == '__main__':")[0]
        with open(os.path.join(d, 'test_mod.py'), 'w') as f:
            f.write(text)
        with open(os.path.join(d, 'conftest.py'), 'w') as f:
            f.write(CONFTEST % {'repo': core.REPO})
        args = {'none': [], 'tagged': ['--tagged'], 'check': ['--istagged']}[case['mode']]
        p = subprocess.run(['/venv/bin/python', '-m', 'pytest', '-q', '-s', '-p', 'no:cacheprovider', 'test_mod.py'] + args,
                           cwd=d, stdout=subprocess.PIPE, stderr=subprocess.PIPE, text=True, timeout=300,
                           env=dict(os.environ, PYTHONPATH=core.REPO, PYTHONDONTWRITEBYTECODE='1'))
        ran = sorted(l.strip() for l in open(log)) if os.path.exists(log) else []
        tagged, check = case['mode'] == 'tagged', case['mode'] == 'check'
        run, listed = expected_selection(case['classes'], tagged, check)
        for name, tg, _ in case['funcs']:
            if not check and (tg or not tagged):
                run.append(name)
        if 'error' in p.stdout.lower() and 'collect' in p.stdout.lower() and not ran and run:
            raise RuntimeError('pytest could not collect the generated module: %s' % p.stdout[-400:])
        if ran != sorted(run):
            fail('pytest-executed', 'pytest %s executed %r expected %r' % (args, ran, sorted(run)), 'pytest-executed:' + case['mode'])
        if check:
            got = sorted(m.group(1) for m in re.finditer(r'^test_mod\.(\w+)\s*$', p.stdout, re.M))
            want = sorted(listed + [name for name, tg, _ in case['funcs'] if tg])
            if got != want:
                fail('pytest-listed', 'pytest --istagged named %r expected %r' % (got, want), 'pytest-listed')
        return F
    finally:
        shutil.rmtree(d, ignore_errors=True)


class C19Full(C19):
    def corpus(self):
        base = super().corpus()
        n = self.n_sub_thorough if self.tier == 'thorough' else self.n_sub_quick
        runs = subprocess_cases(self.rng, n)
        runs += pytest_cases(self.rng, max(8, n // 4))
        with ThreadPoolExecutor(16) as ex:
            results = list(ex.map(lambda c: oracle_pytest(c) if c['kind'] == 'pytest' else oracle_run(c), runs))
        self._run_results = {id(c): f for c, f in zip(runs, results)}
        self.count('subprocess_runs', len(runs))
        return base + runs

    def model_ops(self, case):
        if case['kind'] in ('run', 'pytest'):
            return []
        return super().model_ops(case)

    def nontrivial_key(self, case):
        if case['kind'] in ('run', 'pytest'):
            self.count('kind_' + case['kind'])
            return case['kind'] + ':' + json.dumps(case, sort_keys=True)
        return super().nontrivial_key(case)

    def oracle(self, case):
        if case['kind'] in ('run', 'pytest'):
            r = getattr(self, '_run_results', {}).get(id(case))
            if r is not None:
                return r
            return oracle_pytest(case) if case['kind'] == 'pytest' else oracle_run(case)
        return super().oracle(case)


PROP = C19Full
