"""C01 - discovered DataFrame constraints are satisfied by the data they came from."""
import contextlib
import io
import json
import os
import shutil
import tempfile

import core
import cxcommon as cx

core.setup_repo_path()
import pandas as pd  # noqa: E402
from tdda.constraints import discover_df, verify_df, detect_df  # noqa: E402
from props import c07  # noqa: E402


def quiet():
    return contextlib.redirect_stderr(io.StringIO())


def offset_with_seconds(case, name, kind):
    """whether the minimum / maximum of a timezone-aware column lies where its zone's UTC offset is not a whole minute"""
    for c in case['frame']['cols']:
        if c['name'] == name and c['fam'] == 'datetime-tz':
            vals = [pd.Timestamp(x, tz=c.get('tz', 'Europe/London')) for x in c['cells'] if x is not None]
            if not vals:
                return False
            v = min(vals) if kind == 'min' else max(vals)
            return v.utcoffset().total_seconds() % 60 != 0
    return False


class C01(core.Prop):
    pid = 'C01'
    lean_modules = ['TddaVerif.Props.C01']
    theorems = ['TddaVerif.Props.C01.closure', 'TddaVerif.Props.C01.discover_total', 'TddaVerif.Props.C01.closure_frame']
    quick_n = 250
    thorough_n = 12000
    rule = ('cases: frames of 1..3 columns x 0..26 rows over every recognised family (signed/unsigned/nullable ints, '
            'floats incl. +-inf and NaN, bool / boolean / object-bool, object-str / string / category up to 25 '
            'categories, datetime64[s|ms|us|ns], tz-aware, date objects, str), any null pattern, odd field names; each '
            'frame is discovered with rex off and on and its own constraints are then used as a dict and through a '
            '.tdda file, by verify_df and detect_df, with repair on and off (16 combinations). '
            'non-trivial = frame with >= 2 rows; distinct by content')
    trusted_base = [
        'pandas / numpy / pyarrow internals and float rounding are not modelled; the closure theorem is over the '
        'reference aggregates tied by cx.calc (C07 check); rexpy enters through the hypothesis RexSound (C03)',
    ]

    def revive(self, case):
        return cx.revive(case)

    def corpus(self):
        return [
            {'frame': {'nrows': 0, 'cols': [{'name': 's', 'fam': 'object-str', 'cells': []}]}},
            {'frame': {'nrows': 2, 'cols': [{'name': 't', 'fam': 'datetime-tz', 'cells': [cx.DATE_POOL[0], cx.DATE_POOL[1]]}]}},
            {'frame': {'nrows': 3, 'cols': [{'name': 's', 'fam': 'string', 'cells': ['a', None, 'b']}]}},
            {'frame': {'nrows': 2, 'cols': [{'name': 'f', 'fam': 'float64', 'cells': [float('inf'), 1.0]}]}},
            # integers that no double represents exactly (beyond 2**53): bounds must not pass through floating point
            {'frame': {'nrows': 3, 'cols': [{'name': 'id', 'fam': 'int64', 'cells': [2 ** 53 + 1, 5, 2 ** 62 + 1]},
                                            {'name': 'lo', 'fam': 'int64', 'cells': [-2 ** 63 + 1, -2 ** 53 - 1, -7]}]}},
            {'frame': {'nrows': 2, 'cols': [{'name': 'u', 'fam': 'uint64', 'cells': [2 ** 64 - 1, 2 ** 63 + 3]},
                                            {'name': 'n', 'fam': 'Int64', 'cells': [2 ** 63 - 1, None]}]}},
        ]

    def gen_case(self, rng, i):
        fr = cx.gen_frame(rng)
        if rng.random() < 0.08 and fr['nrows']:
            fr['cols'].append({'name': 'when%d' % len(fr['cols']), 'fam': 'datetime-tz',
                               'cells': cx.gen_cells(rng, 'datetime-tz', fr['nrows'])})
        for c in fr['cols']:
            if c['fam'] == 'datetime-tz' and rng.random() < 0.6:
                c['tz'] = rng.choice(['America/St_Johns', 'Pacific/Marquesas', 'Asia/Kolkata', 'America/Caracas'])
        return {'frame': fr}

    # correspondence: the discover op of C07 per column (keeps the model tied here too)
    def model_ops(self, case):
        ops = []
        for col in case['frame']['cols']:
            sub = {'col': col, 'rex': False}
            ops += self._c07().model_ops(sub)
        return ops

    def impl_outputs(self, case):
        out = []
        for col in case['frame']['cols']:
            sub = {'col': col, 'rex': False}
            if self._c07().model_ops(sub):
                out += self._c07().impl_outputs(sub)
        return out

    def canon_model(self, case, outs):
        res = []
        i = 0
        for col in case['frame']['cols']:
            sub = {'col': col, 'rex': False}
            n = len(self._c07().model_ops(sub))
            if n:
                res += self._c07().canon_model(sub, outs[i:i + n])
                i += n
        return res

    def _c07(self):
        if not hasattr(self, '_c07obj'):
            self._c07obj = c07.C07(self.tier, self.seed)
        return self._c07obj

    def nontrivial_key(self, case):
        for c in case['frame']['cols']:
            self.count('fam_' + c['fam'])
        return json.dumps(case, sort_keys=True, default=str) if case['frame']['nrows'] >= 2 else None

    def oracle(self, case):
        F = []
        fams = sorted({c['fam'] for c in case['frame']['cols']})

        def fail(clause, detail, key):
            F.append(core.Failure(clause, case, detail, key))
        d = tempfile.mkdtemp(prefix='c01_')
        try:
            for rex in (False, True):
                df = cx.to_df(case['frame'])
                try:
                    with quiet():
                        cs = discover_df(df, inc_rex=rex)
                except Exception as e:
                    zero = case['frame']['nrows'] == 0
                    fail('discover-raises', 'rex=%s: %s: %s' % (rex, type(e).__name__, str(e)[:150]),
                         'discover-raises:%s%s' % (type(e).__name__, ':zero-rows+rex' if zero and rex else ''))
                    continue
                if cs is None:
                    continue
                asdict = cs.to_dict()
                path = os.path.join(d, 'c_%s.tdda' % rex)
                with open(path, 'w') as f:
                    f.write(cs.to_json())
                for how in ('dict', 'file'):
                    for mode in ('verify', 'detect'):
                        for repair in (False, True):
                            df2 = cx.to_df(case['frame'])
                            src = asdict if how == 'dict' else path
                            try:
                                with quiet(), contextlib.redirect_stdout(io.StringIO()):
                                    if mode == 'verify':
                                        v = verify_df(df2, src, repair=repair)
                                    else:
                                        v = detect_df(df2, src, repair=repair)
                            except Exception as e:
                                fail('verify-raises', 'rex=%s %s %s repair=%s: %s: %s'
                                     % (rex, how, mode, repair, type(e).__name__, str(e)[:150]),
                                     'verify-raises:%s' % type(e).__name__)
                                continue
                            if v.failures:
                                bad = [(n, k, case_col_fam(case, n)) for n, fr in v.fields.items() for k, val in fr.items() if not val]
                                for n, k, fam in bad[:3]:
                                    key = 'own-constraint-fails:%s:%s' % (k, fam)
                                    if k == 'rex' and foreign_digit(case, n):
                                        key = 'own-constraint-fails:rex:non-ascii-decimal-digit'
                                    if k in ('min', 'max') and offset_with_seconds(case, n, k):
                                        # cause established: the bound's UTC offset has seconds (a local mean time of
                                        # before the zone's standard time), which the text layout of bounds cannot be read back from
                                        key = 'own-constraint-fails:%s:utc-offset-with-seconds' % k
                                    if repair and not self._fails_without_repair(case, src, mode, n, k):
                                        key += ':repair-only'
                                    fail('own-constraint-fails', 'rex=%s %s %s repair=%s: %s.%s failed (%s)'
                                         % (rex, how, mode, repair, n, k, fam), key)
                            if mode == 'detect':
                                det = v.detected()
                                if det is not None and len(det) > 0:
                                    badf = sorted({('non-ascii-decimal-digit' if k == 'rex' and foreign_digit(case, n)
                                                    else 'utc-offset-with-seconds' if k in ('min', 'max') and offset_with_seconds(case, n, k)
                                                    else case_col_fam(case, n))
                                                   for n, fr in v.fields.items() for k, val in fr.items() if not val})
                                    fail('detect-reports-records', '%d failing records reported' % len(det),
                                         'detect-reports-records:' + '+'.join(badf))
        finally:
            shutil.rmtree(d, ignore_errors=True)
        # one failure per key is enough
        seen = set()
        out = []
        for f in F:
            if f.key not in seen:
                seen.add(f.key)
                out.append(f)
        return out

    def _fails_without_repair(self, case, src, mode, name, kind):
        df = cx.to_df(case['frame'])
        try:
            with quiet(), contextlib.redirect_stdout(io.StringIO()):
                v = verify_df(df, src, repair=False)
            return not v.fields[name][kind]
        except Exception:
            return True


def foreign_digit(case, name):
    for c in case['frame']['cols']:
        if c['name'] == name:
            return any(isinstance(v, str) and any(ch.isdecimal() and not '0' <= ch <= '9' for ch in v) for v in c['cells'])
    return False


def case_col_fam(case, name):
    for c in case['frame']['cols']:
        if c['name'] == name:
            return c['fam']
    return '?'


PROP = C01
