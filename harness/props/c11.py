"""C11 - gentest: for a repeatable command the generated test exists, compiles and passes."""
import json
import os
import re
import shutil
import tempfile
from concurrent.futures import ThreadPoolExecutor

import core
import gtcommon as gt

core.setup_repo_path()
from tdda.referencetest.gentest import TestGenerator, is_date_like, possible_date  # noqa: E402

NAMES = ['out.txt', 'a.b', 'a_b', 'a_b2', 'stdout', 'stderr', 'exit_code', 'no_exception', 'x', 'x2', 'x3', 'x.y.z', 'data-1.csv',
         'data_1_csv', 'data_1_csv2', 'A', 'a', '', '1', 'é.txt'.encode('ascii', 'replace').decode(), 'out.txt']

DEF_RE = re.compile(r'^    def test_(\w+)\(self\):\n((?:        .*\n|\n)*)', re.M)


def class_body_parts(path):
    """the statements of the class body of a generated script, in order, each with the class-level names it defines and
    the class-level names it reads when the class is created; and whether Python creates the class (the script is executed
    as a module, not as __main__: no test runs) without a NameError"""
    import ast
    with open(path, encoding='utf-8') as f:
        text = f.read()
    tree = ast.parse(text)
    cls = next(n for n in tree.body if isinstance(n, ast.ClassDef))

    def targets(st):
        return [n.id for n in ast.walk(st) if isinstance(n, ast.Name) and isinstance(n.ctx, ast.Store)]
    level = set()
    for st in cls.body:
        if isinstance(st, (ast.FunctionDef, ast.AsyncFunctionDef)):
            level.add(st.name)
        else:
            level.update(targets(st))
    parts = []
    for st in cls.body:
        if isinstance(st, (ast.FunctionDef, ast.AsyncFunctionDef)):
            parts.append({'defines': [st.name], 'uses': []})
        else:
            loads = [n.id for n in ast.walk(st) if isinstance(n, ast.Name) and isinstance(n.ctx, ast.Load) and n.id in level]
            own = targets(st)
            # (a name assigned earlier in the same compound statement is not read from outside it)
            parts.append({'defines': sorted(set(own)), 'uses': sorted(set(loads) - set(own))})
    try:
        saved_env = dict(os.environ)
        try:
            exec(compile(text, path, 'exec'), {'__file__': path, '__name__': 'generated_script'})
        finally:
            os.environ.clear()
            os.environ.update(saved_env)
        created = True
    except NameError:
        created = False
    except Exception:   # noqa  (anything else is for the run of the script to show)
        created = True
    return {'parts': parts, 'created': created}


def parse_script(text):
    """[(test name, kind)] in order"""
    out = []
    for m in DEF_RE.finditer(text):
        body = m.group(2)
        k = re.search(r'self\.assert(String|TextFile|BinaryFile)Correct', body)
        out.append([m.group(1), k.group(1) if k else 'fixed'])
    return out


class GentestProp(core.Prop):
    """shared: generation (and whatever each property does afterwards) for a whole batch, in parallel"""
    search_n = 48
    workers = 16

    def __init__(self, tier, seed):
        super().__init__(tier, seed)
        self.tmp = tempfile.mkdtemp(prefix='gt_')
        self._res = {}
        import atexit
        atexit.register(lambda: shutil.rmtree(self.tmp, ignore_errors=True))

    def key(self, case):
        return json.dumps(case, sort_keys=True)

    def prepare(self, cases):
        todo = [(i, c) for i, c in enumerate(cases) if c.get('kind', 'run') == 'run' and self.key(c) not in self._res]
        if not todo:
            return

        def work(ic):
            i, c = ic
            d = tempfile.mkdtemp(prefix='w_', dir=self.tmp)
            try:
                return self.key(c), self.evaluate(json.loads(json.dumps(c)), d)
            except Exception as e:   # noqa
                import traceback
                return self.key(c), {'harness_error': '%r %s' % (e, traceback.format_exc()[-400:])}
            finally:
                shutil.rmtree(d, ignore_errors=True)
                shutil.rmtree(d + '-out', ignore_errors=True)
        with ThreadPoolExecutor(self.workers) as ex:
            for k, r in ex.map(work, todo):
                self._res[k] = r

    def result(self, case):
        k = self.key(case)
        if k not in self._res:
            self.prepare([case])
        return self._res[k]


class C11(GentestProp):
    pid = 'C11'
    lean_modules = ['TddaVerif.Props.C11']
    theorems = ['TddaVerif.Props.C11.' + t for t in [
        'testNames_nodup', 'plan_names_nodup', 'plan_length', 'plan_files', 'plan_streams', 'possibleDate_iff',
        'numDateLike_iff', 'unchanged_output_passes', 'class_body_well_ordered', 'wellOrdered_spec', 'tie_script_template']]
    quick_n = 64
    thorough_n = 2500
    rule = ('cases: (run) deterministic shell commands printing 0..5 lines on stdout / stderr from a pool of date-like, time-like, '
            'version-like, path-like, quoted, backslashed, regex-meta, unicode, percent-format and triple-quote texts (fed from files '
            'or inlined into the command line), writing 0..3 text / binary files named explicitly, by directory or by glob, exit '
            'status 0/1/2/7 x iterations 1..3 x --no-stdout / --no-stderr / --non-zero-exit x script names with / without test_ '
            'prefix and .py, with dashes and dots, relative and absolute x bystander files; each is generated by a real '
            '`python -m tdda.referencetest.gentest` process and the script is run by a real python process. (names) lists of file '
            'names that sanitise to equal / reserved / already-qualified test names. (dates) number triples around calendar edges. '
            'non-trivial = a run case with some output; distinct by content')
    trusted_base = [
        'the shell, the file system, process exit status, chardet (file type detection) and the Python compiler are runtime: the '
        'oracle runs real processes; a model cannot exhibit them',
        'Model/Gentest.lean is a hand translation of test_name, the test selection of write_script and the numeric branch of '
        'is_date_like / possible_date; tied by gt.names / gt.plan (against the def test_ lines of really generated scripts) / gt.datelike',
        'str.isalnum enters the model as the ASCII predicate (generated file names are ASCII)',
    ]

    def translate(self):
        import translate
        return translate.regenerate(['Gentest'])

    def corpus(self):
        base = {'stdout': 'version 1.2.0 build 15\n31/02/2020\n', 'stderr': '', 'files': [], 'status': 0, 'iterations': 2,
                'flags': [], 'script': 'test_cmd.py', 'existing': True, 'cmd_style': 'cat'}
        return [
            dict(base, kind='run'),
            dict(base, kind='run', script='test_my-cmd.py', stdout='"""triple"""\n', cmd_style='printf'),
            dict(base, kind='run', iterations=1, files=[{'name': 'out0.bin', 'kind': 'binary', 'how': 'dir', 'content': '670e7149426ef7c7ba7c0f0f963f1603'}]),
            dict(base, kind='run', files=[{'name': 'stdout', 'kind': 'text', 'how': 'explicit', 'content': 'x\n'}]),
            # tokens specific to the machine, the user and the directory (filled in when the directory is built)
            dict(base, kind='run', stdout='connect to {IP} ok\nhost {HOST} up\n', stderr='user {USER} at {CWD}\n',
                 files=[{'name': 'out0.txt', 'kind': 'text', 'how': 'explicit', 'content': 'home {HOME}/notes\n{IP}\n'}]),
            # a long text output whose only non-ASCII characters come after the first 8 KiB, one run
            dict(base, kind='run', iterations=1, files=[{'name': 'report.txt', 'kind': 'text', 'how': 'explicit',
                 'content': ''.join('row %04d,xxxxxxxxxx,ok\n' % i for i in range(400)) + 'total: 12 \u20ac\n'}]),
            dict(base, kind='run', old_bystanders=True,
                 files=[{'name': 'out0.txt', 'kind': 'text', 'how': 'dir', 'content': 'alpha\n'}]),
            {'kind': 'names', 'basenames': ['a_b2', 'a.b', 'a_b', 'stdout']},
            {'kind': 'dates', 'triples': [[31, 2, 2020], [29, 2, 2020], [29, 2, 1900], [29, 2, 2000], [1, 2, 0], [15, 1, 10000],
                                          [1, 13, 2020], [2020, 2, 30], [12, 31, 1999], [0, 1, 2000]]},
        ]

    def gen_case(self, rng, i):
        r = rng.random()
        if r < 0.15:
            return {'kind': 'names', 'basenames': [rng.choice(NAMES) for _ in range(rng.randint(0, 7))]}
        if r < 0.3:
            pool = [0, 1, 2, 12, 13, 28, 29, 30, 31, 32, 99, 1900, 2000, 2020, 2021, 2024, 9999, 10000]
            return {'kind': 'dates', 'triples': [[rng.choice(pool), rng.choice(pool), rng.choice(pool)] for _ in range(8)]}
        c = gt.gen_case(rng)
        c['kind'] = 'run'
        return c

    def nontrivial_key(self, case):
        self.count('kind_' + case['kind'])
        if case['kind'] != 'run':
            return None
        self.count('iterations_%d' % case['iterations'])
        for f in case['flags']:
            self.count('flag_' + f)
        for f in case['files']:
            self.count('file_%s_%s' % (f['kind'], f['how']))
        return self.key(case) if (case['stdout'] or case['stderr'] or case['files']) else None

    # ------------------------------------------------------------------ the real thing (one working directory)
    def evaluate(self, case, d):
        g = gt.run_gentest(case, d)
        res = {'grc': g['rc'], 'gerr': (g['err'] or g['out'])[-500:], 'script': g['script']}
        if g['rc'] != 0:
            return res
        sp = os.path.join(d, g['script'])
        res['script_exists'] = os.path.exists(sp)
        res['refdir_exists'] = os.path.isdir(os.path.join(d, g['refdir']))
        if not res['script_exists']:
            return res
        res['syntax'] = gt.compiles(sp)
        with open(sp, encoding='utf-8') as f:
            res['tests'] = parse_script(f.read())
        # files that existed before must be untouched (the command's own outputs did not exist before)
        own = {os.path.normpath(gt.target_of(fl, os.path.basename(d))) for fl in case['files']}
        # (a previous version of the script and of its reference directory may be replaced: the statement says so)
        mine = lambda k: os.path.normpath(k) == os.path.normpath(g['script']) or \
            os.path.normpath(k).startswith(os.path.normpath(g['refdir']) + os.sep)
        res['altered'] = sorted(k for k, v in g['before'].items()
                                if g['after'].get(k) != v and os.path.normpath(k) not in own and not mine(k))
        res['outputs_missing'] = sorted(gt.target_of(fl) for fl in case['files'] if fl['how'] != 'tmp' and
                                        not os.path.exists(os.path.join(d, gt.target_of(fl, os.path.basename(d)))))
        if res['syntax'] is None:
            res['body'] = class_body_parts(sp)
            r = gt.run_script(d, g['script'])
            res['run'] = {k: r[k] for k in ('rc', 'failed', 'errors', 'ran')}
            res['run_text'] = r['text'][-600:]
        return res

    def oracle(self, case):
        F = []
        fail = lambda clause, detail, key=None: F.append(core.Failure(clause, case, detail, key or clause))
        if case['kind'] == 'names':
            return F
        if case['kind'] == 'dates':
            for n1, n2, n3 in case['triples']:
                for sep in '/-':
                    line = 'x %d%s%d%s%d y' % (n1, sep, n2, sep, n3)
                    try:
                        is_date_like(line)
                    except Exception as e:   # noqa
                        fail('date-detector-raises', '%r: %s: %s' % (line, type(e).__name__, e), 'date-detector-raises:' + type(e).__name__)
            return F
        r = self.result(case)
        if 'harness_error' in r:
            raise RuntimeError(r['harness_error'])
        if r['grc'] != 0:
            m = re.findall(r'^(\w+Error|\w+Exception)\b', r['gerr'], re.M)
            fail('generation-fails', 'gentest exits %r: %s' % (r['grc'], r['gerr'][-300:]), 'generation-fails:%s' % (m[-1] if m else r['grc']))
            return F
        if not r.get('script_exists'):
            fail('no-script', 'gentest exits 0 but %s was not written' % r['script'])
            return F
        if not r.get('refdir_exists'):
            fail('no-reference-directory', 'no reference directory next to %s' % r['script'])
        if r['syntax']:
            fail('script-does-not-compile', r['syntax'])
            return F
        if r['altered']:
            fail('existing-file-altered', 'changed or removed: %s' % r['altered'][:5])
        if r['outputs_missing']:
            fail('command-output-removed', 'the command\'s own outputs are gone after generation: %s' % r['outputs_missing'])
        run = r['run']
        if run['rc'] != 0:
            fail('generated-test-fails', 'run straight after generation: exit %r, failed %s, errors %s\n%s'
                 % (run['rc'], run['failed'], run['errors'], r['run_text'][-300:]),
                 'generated-test-fails:%s' % ','.join(sorted({re.sub(r'\d+', 'N', t) for t in run['failed'] + run['errors']})))
        want = len(case['files']) + ('--no-stdout' not in case['flags']) + ('--no-stderr' not in case['flags']) + 2
        if run.get('ran') is not None and run['ran'] != want:
            fail('test-count', 'script ran %s tests for %d files, flags %s' % (run['ran'], len(case['files']), case['flags']))
        return F

    # ------------------------------------------------------------------ correspondence
    def _gen0(self):
        return TestGenerator(self.tmp, 'true', 'test_x.py', [], True, iterations=0, tmp_dir_shell_var=None, verbose=False)

    def model_ops(self, case):
        if case['kind'] == 'names':
            if any(not all(ord(c) < 128 for c in b) for b in case['basenames']):
                return []
            return [{'op': 'gt.names', 'basenames': case['basenames']}]
        if case['kind'] == 'dates':
            ops = []
            for n1, n2, n3 in case['triples']:
                if not self._regex_sees(n1, n2, n3):
                    continue      # the regular expression decides which digits are looked at: outside the model
                ops.append({'op': 'gt.datelike', 'n1': n1, 'n2': n2, 'n3': n3})
                ops.append({'op': 'gt.possible_date', 'y': n1, 'm': n2, 'd': n3})
            return ops
        r = self.result(case)
        if r.get('grc') != 0 or not r.get('tests'):
            return []
        files = self._plan_files(case, r)
        if files is None:
            return []
        return [{'op': 'gt.plan', 'stdout': '--no-stdout' not in case['flags'], 'stderr': '--no-stderr' not in case['flags'],
                 'files': files}] + self._body_ops(r)

    def _body_ops(self, r):
        return [{'op': 'gt.well_ordered', 'parts': r['body']['parts']}] if r.get('body') else []

    def _plan_files(self, case, r):
        """the reference files in the order gentest handles them (sorted by path) with the kind the script used"""
        kinds = {}
        tests = r['tests']
        file_tests = [t for t in tests if t[1] in ('TextFile', 'BinaryFile')]
        if any(f['how'] == 'tmp' for f in case['files']):
            return None            # (where the generator's own temporary directory sorts among the paths is not known here)
        targets = sorted(os.path.normpath(os.path.join('/t/w', gt.target_of(f))) for f in case['files'])
        if len(file_tests) != len(targets):
            return None
        return [[os.path.basename(t), ft[1] == 'TextFile'] for t, ft in zip(targets, file_tests)]

    def impl_outputs(self, case):
        if case['kind'] == 'names':
            g = self._gen0()
            return [[g.test_name('/some/dir/' + b) if b else g.test_name('') for b in case['basenames']]]
        if case['kind'] == 'dates':
            out = []
            for n1, n2, n3 in case['triples']:
                if not self._regex_sees(n1, n2, n3):
                    continue
                line = 'x %d/%d/%d y' % (n1, n2, n3)
                try:
                    out.append(is_date_like(line) is not None)
                    out.append(possible_date(n1, n2, n3) is not None)
                except Exception as e:   # noqa
                    out += [{'exc': type(e).__name__}, {'exc': type(e).__name__}]
            return out
        r = self.result(case)
        return [r['tests']] + ([r['body']['created']] if r.get('body') else [])

    def canon_model(self, case, outs):
        return [o['ok'] if 'ok' in o else {'exc': o.get('exc')} for o in outs]

    def _regex_sees(self, n1, n2, n3):
        from tdda.referencetest.gentest import NUM_DATE_RE, D2
        if not re.match(D2, 'x %d/%d/%d y' % (n1, n2, n3)):
            return False      # the detector only looks at lines holding two adjacent digits
        m = re.match(NUM_DATE_RE, 'x %d/%d/%d y' % (n1, n2, n3))
        return m is not None and [int(m.group(2)), int(m.group(3)), int(m.group(4))] == [n1, n2, n3]


PROP = C11
