"""C10 - references are rewritten only on request, and a regenerated reference passes."""
import json
import re
import os
import shutil
import tempfile

import core
import cfcommon as cf

core.setup_repo_path()
import pandas as pd  # noqa: E402
from tdda.referencetest.referencetest import ReferenceTest  # noqa: E402
from tdda.referencetest import referencetestcase as rtc  # noqa: E402
from props import c19  # noqa: E402

KINDS = [None, 'table', 'graph', 'csv', 'parquet']
TEXTS = ['', 'a\n', 'a\nb', 'a\r\nb\r\n', 'x\ry\n', 'été\n日本\n', ' lead\ntrail \n', 'a\n\n', '\n', 'tab\tbed\n',
         'line one\nline two\nline three\n', 'a\x0cb\n', 'p q\n',
         # blank and white-space-only lines at either end (what per-line stripping leaves alone and whole-text stripping eats)
         '\n\nabc\n', 'abc\n\n\n', '  \nabc\n  \n', '\t\nx\n', ' \n \n',
         # text that begins with U+FEFF (a spreadsheet export), texts of one length
         '\ufeffa,b\n1,2\n', '\ufeff', 'abc\n', 'abd\n', 'xyz\n']


EXTRA_DTYPES = ['uint8', 'uint16', 'uint32', 'uint64', 'int8', 'int16', 'int32', 'float32', 'bool', 'boolean', 'Int64', 'UInt32',
                'Float64', 'Int8', 'datetime64[ms]', 'datetime64[us]', 'datetime64[ns]', 'datetime64[ns]+frac', 'tz-utc-ns',
                'tz-london-us', 'timedelta', 'str', 'category-null']


def extra_column(name):
    ts = [pd.Timestamp('2020-01-02'), pd.Timestamp('1999-12-31 10:00:00'), pd.NaT]
    if name.startswith('datetime64['):
        if name.endswith('+frac'):
            return pd.Series([pd.Timestamp('2020-01-02 00:00:00.000000001'), pd.Timestamp('1999-12-31 10:00:00.123456789'), pd.NaT]).astype('datetime64[ns]')
        return pd.Series(ts).astype(name)
    if name == 'tz-utc-ns':
        return pd.Series(ts).astype('datetime64[ns]').dt.tz_localize('UTC')
    if name == 'tz-london-us':
        return pd.Series(ts).astype('datetime64[us]').dt.tz_localize('Europe/London')
    if name == 'timedelta':
        return pd.Series([pd.Timedelta(seconds=1), pd.Timedelta(days=2), pd.NaT])
    if name == 'str':
        return pd.Series(['x', None, 'y'], dtype='str')
    if name == 'category-null':
        return pd.Series([None, None, None]).astype('category')
    return pd.Series([1, 0, 1]).astype(name)


def gen_history(rng):
    n = rng.randint(1, 10)
    ops = []
    for _ in range(n):
        r = rng.random()
        if r < 0.35:
            ops.append({'op': 'set', 'kind': rng.choice(KINDS), 'value': rng.random() < 0.6})
        else:
            which = rng.choice(['string', 'string', 'textfile', 'textfiles', 'binary', 'frame'])
            o = {'op': which, 'kind': rng.choice(KINDS), 'slot': rng.randint(0, 2)}
            if rng.random() < 0.15:
                o['slot'] = 3                                   # (a slot of its own: another file than ref<n>.<ext>)
                o['extcase'] = rng.choice(['upper', 'title'])
            if which == 'binary':
                o['actual'] = [rng.choice([0, 10, 13, 255]) for _ in range(rng.randint(0, 6))]
            elif which == 'frame':
                o['variant'] = rng.choice([0, 0, 1, 2, 3])
                if rng.random() < 0.6:
                    # further columns, one per named dtype (numeric widths, datetime units, timezone-aware, extension types)
                    o['extra'] = rng.sample(EXTRA_DTYPES, rng.randint(1, 3))
                o['actual'] = {'a': [rng.randint(0, 5) for _ in range(3)], 'b': [rng.choice(['x', 'y', None]) for _ in range(3)],
                               'c': [rng.choice([0.5, 1.25, None]) for _ in range(3)]}
            else:
                o['actual'] = rng.choice(TEXTS) if rng.random() < 0.8 else ''.join(rng.choice('ab\n\r ') for _ in range(rng.randint(0, 8)))
                if rng.random() < 0.25:
                    o['opts'] = rng.choice([{'lstrip': True}, {'rstrip': True}, {'lstrip': True, 'rstrip': True}, {'rstrip': True},
                                            {'ignore_substrings': ['a']},
                                            {'remove_lines': ['b']}, {'ignore_patterns': [r'\d+']},
                                            {'max_permutation_cases': 2}])
            ops.append(o)
    return ops


def same_stat(act, ref):
    """files of one size get one modification time (unpacked from an archive, checked out together): still two files"""
    if os.path.exists(ref) and os.path.getsize(ref) == os.path.getsize(act):
        for p_ in (act, ref):
            os.utime(p_, (10 ** 9, 10 ** 9))


def should(table, kind):
    """independent reading: last setting for the kind, else last setting for all kinds, else no"""
    if kind in table:
        return table[kind]
    return table.get(None, False)


def run_history(ops, pre_existing):
    """Runs the history on real ReferenceTest objects. Returns per-op observations."""
    root = tempfile.mkdtemp(prefix='c10_')
    obs = []
    saved = dict(ReferenceTest.regenerate)
    ReferenceTest.regenerate.clear()
    try:
        refdir = os.path.join(root, 'ref')
        outdir = os.path.join(root, 'out')
        tmpdir = os.path.join(root, 'tmp')
        for d in (refdir, outdir, tmpdir):
            os.makedirs(d)

        class R(ReferenceTest):
            verbose = False
            tmp_dir = tmpdir
        res = {}
        r = R(lambda ok, msg: res.update(passed=bool(ok), message=msg))
        for slot, content in pre_existing.items():
            for ext, data in content.items():
                with open(os.path.join(refdir, 'ref%s.%s' % (slot, ext)), 'wb') as f:
                    f.write(data)
        for o in ops:
            if o['op'] == 'set':
                R.set_regeneration(o['kind'], o['value'])
                obs.append({'op': 'set'})
                continue
            ext = {'string': 'txt', 'textfile': 'txt', 'textfiles': 'txt', 'binary': 'bin', 'frame': 'parquet'}[o['op']]
            ext = {'upper': ext.upper(), 'title': ext.title()}.get(o.get('extcase'), ext)     # (ref0.PARQUET, ref0.Txt ...)
            ref = os.path.join(refdir, 'ref%d.%s' % (o['slot'], ext))
            before = open(ref, 'rb').read() if os.path.exists(ref) else None
            before_all = cf.snapshot(refdir)
            res.clear()
            exc = None
            kw = cf.kw_of(o.get('opts', {}))

            def call():
                if o['op'] == 'string':
                    r.assertStringCorrect(o['actual'], ref, kind=o['kind'], **kw)
                elif o['op'] in ('textfile', 'textfiles'):
                    act = os.path.join(outdir, 'act.txt')
                    with open(act, 'w', encoding='utf-8', newline='') as f:
                        f.write(o['actual'])
                    same_stat(act, ref)
                    if o['op'] == 'textfile':
                        r.assertTextFileCorrect(act, ref, kind=o['kind'], **kw)
                    else:
                        r.assertTextFilesCorrect([act], [ref], kind=o['kind'], **kw)
                elif o['op'] == 'binary':
                    act = os.path.join(outdir, 'act.bin')
                    with open(act, 'wb') as f:
                        f.write(bytes(o['actual']))
                    same_stat(act, ref)
                    r.assertBinaryFileCorrect(act, ref, kind=o['kind'])
                else:
                    df = pd.DataFrame(o['actual'])
                    variant = o.get('variant', 0)
                    if variant == 0:
                        df['b'] = df['b'].astype('string')
                    elif variant == 1:
                        df['b'] = df['b'].astype(object)
                    elif variant == 2:
                        df['b'] = df['b'].astype('string')
                        df['d'] = pd.Series([pd.Timestamp('2020-01-02'), pd.Timestamp('1999-12-31 10:00:00'), pd.NaT]).astype('datetime64[s]')
                    else:
                        df['b'] = df['b'].astype('category')
                    for j, name in enumerate(o.get('extra', [])):
                        df['e%d' % j] = extra_column(name)
                    r.assertDataFrameCorrect(df, ref, kind=o['kind'])
            try:
                call()
            except Exception as e:  # noqa
                exc = e
            after = open(ref, 'rb').read() if os.path.exists(ref) else None
            after_all = cf.snapshot(refdir)
            ob = {'op': o['op'], 'before': before, 'after': after, 'passed': res.get('passed'), 'exc': exc,
                  'others_changed': sorted(k for k in set(before_all) | set(after_all)
                                           if k != os.path.basename(ref) and before_all.get(k) != after_all.get(k)),
                  'asserted': 'passed' in res}
            # regenerate-then-check: same assertion, same actual, normal mode
            if after != before or ob['asserted'] is False:
                pass
            obs.append(ob)
            ob['recheck'] = None
            if not ob['asserted'] and exc is None:
                # it regenerated; now the same assertion in normal mode
                saved_table = dict(ReferenceTest.regenerate)
                ReferenceTest.regenerate.clear()
                res.clear()
                try:
                    call()
                    ob['recheck'] = res.get('passed')
                    ob['recheck_msg'] = res.get('message')
                except Exception as e:  # noqa
                    ob['recheck'] = 'exc:%s: %s' % (type(e).__name__, str(e)[:150])
                ReferenceTest.regenerate.clear()
                ReferenceTest.regenerate.update(saved_table)
                ob['after_recheck'] = open(ref, 'rb').read() if os.path.exists(ref) else None
        return obs
    finally:
        ReferenceTest.regenerate.clear()
        ReferenceTest.regenerate.update(saved)
        shutil.rmtree(root, ignore_errors=True)


class C10(core.Prop):
    pid = 'C10'
    lean_modules = ['TddaVerif.Props.C10']
    theorems = ['TddaVerif.Props.C10.' + t for t in ['shouldRegenerate_history', 'write_only_named', 'regen_from_cmdline',
        'normal_mode_readonly_string', 'normal_mode_readonly_textfile', 'normal_mode_readonly_binary', 'splitlines_universal',
        'universal_idem', 'regenerate_then_pass_string', 'regenerate_then_pass_textfile', 'regenerate_then_pass_binary', 'ref_table_spec', 'ref_table_unnamed']]
    quick_n = 750
    thorough_n = 6000
    rule = ('cases: histories of 1..10 operations on one ReferenceTest subclass: set_regeneration(kind in '
            '{None, table, graph, csv}, bool) and string / text-file / text-files / binary-file / DataFrame(parquet) '
            'assertions with a kind label on 3 reference slots (some pre-existing with other content), text with '
            'CR/LF, lone CR, no final newline, unicode, form feeds; plus command lines (as C19) mapped to the '
            'regeneration table. The reference directory is snapshotted around every assertion; after a '
            'regenerating assertion the same assertion is repeated in normal mode. non-trivial = history with at '
            'least one set and one assertion; distinct by content')
    trusted_base = [
        'OS file semantics and pandas/pyarrow parquet round trip are not modelled (oracle only)',
        'the shared class-level regeneration dict is reset by the harness between histories only',
    ]

    def corpus(self):
        return [
            {'kind': 'history', 'pre': {}, 'ops': [{'op': 'set', 'kind': None, 'value': True},
                                                      {'op': 'textfiles', 'kind': None, 'slot': 0, 'actual': 'a\nb\n'}]},
            {'kind': 'history', 'pre': {}, 'ops': [{'op': 'set', 'kind': 'table', 'value': True},
                                                      {'op': 'string', 'kind': 'graph', 'slot': 0, 'actual': 'g\n'},
                                                      {'op': 'string', 'kind': 'table', 'slot': 1, 'actual': 't\r\nu'}]},
            {'kind': 'history', 'pre': {}, 'ops': [{'op': 'set', 'kind': None, 'value': True},
                                                      {'op': 'frame', 'kind': None, 'slot': 0,
                                                       'actual': {'a': [1, 2, 3], 'b': ['x', None, 'y'], 'c': [0.5, None, 1.25]}}]},
            {'kind': 'cmdline', 'argv': ['prog.py', '--write', 'table']},
            {'kind': 'cmdline', 'argv': ['prog.py', '-W']},
            {'kind': 'cmdline', 'argv': ['prog.py', '-w', 'table,graph', 'csv']},
        ]

    def gen_case(self, rng, i):
        if rng.random() < 0.08:
            # the pytest spellings: --write-all, --write KIND [KIND ...] (kinds separate or comma-separated), --wquiet
            write = None
            if rng.random() < 0.7:
                write = [rng.choice(['table', 'graph', 'csv', 'table,graph', 'a,b', 'graph,csv', 'Graph', 'CSV,table']) for _ in range(rng.randint(1, 2))]
            return {'kind': 'pytest_opts', 'write_all': rng.random() < 0.5, 'write': write, 'wquiet': rng.random() < 0.3}
        if rng.random() < 0.25:
            return {'kind': 'cmdline', 'argv': c19.gen_argv(rng, 'doc')}
        pre = {}
        for slot in range(3):
            if rng.random() < 0.5:
                pre[str(slot)] = {'txt': rng.choice(TEXTS).encode('utf-8'), 'bin': bytes([1, 2, 3])}
        return {'kind': 'history', 'pre': {k: {e: list(v) for e, v in d.items()} for k, d in pre.items()},
                'ops': gen_history(rng)}

    def _pre(self, case):
        return {k: {e: bytes(v) for e, v in d.items()} for k, d in case['pre'].items()}

    PYTEST_KINDS = ['table', 'graph', 'csv', 'a', 'b', 'other', 'Graph', 'CSV']

    def _registered_options(self):
        """the options referencepytest.addoption registers, with their keyword arguments (a parser stand-in records them)"""
        from tdda.referencetest import referencepytest
        seen = {}

        class _Parser:
            def addoption(self_, name, **kw):
                seen[name] = kw
        referencepytest.addoption(_Parser())
        return seen

    def _pytest_ref(self, case):
        """the regeneration decisions after referencepytest.ref(request) on an empty table"""
        from tdda.referencetest import referencepytest

        opts = self._registered_options()
        conv = (opts.get('--write') or {}).get('type')
        write = case['write'] if (case['write'] is None or conv is None) else [conv(w) for w in case['write']]

        class _Cfg:
            def getoption(self_, name, default=None):
                return {'--write-all': case['write_all'], '--write': write, '--wquiet': case['wquiet']}.get(name, default)

        class _Req:
            config = _Cfg()
        saved = dict(ReferenceTest.regenerate)
        saved_verbose = ReferenceTest.verbose
        ReferenceTest.regenerate.clear()
        try:
            r = referencepytest.ref(_Req())
            return {'regen': [bool(r._should_regenerate(k)) for k in self.PYTEST_KINDS], 'unnamed': bool(r._should_regenerate(None))}
        except Exception as e:   # noqa
            return {'exc': type(e).__name__}
        finally:
            ReferenceTest.regenerate.clear()
            ReferenceTest.regenerate.update(saved)
            ReferenceTest.verbose = saved_verbose

    def model_ops(self, case):
        if case['kind'] == 'pytest_opts':
            return [{'op': 'c10.pytest_ref', 'write_all': case['write_all'], 'write': case['write'], 'kinds': self.PYTEST_KINDS}]
        if case['kind'] == 'cmdline':
            return [{'op': 'c19.parse_argv', 'argv': case['argv']}]
        ops = []
        for o in case['ops']:
            if o['op'] == 'set':
                ops.append(['set', o['kind'], o['value']])
            else:
                ops.append(['ask', o['kind']])
        return [{'op': 'c10.regen_history', 'ops': ops}]

    def impl_outputs(self, case):
        if case['kind'] == 'pytest_opts':
            return [self._pytest_ref(case)]
        if case['kind'] == 'cmdline':
            return [c19.run_set_flags(case['argv'])]
        # the decision the real object takes before each assertion
        saved = dict(ReferenceTest.regenerate)
        ReferenceTest.regenerate.clear()
        try:
            class R(ReferenceTest):
                verbose = False
            r = R(lambda ok, msg: None)
            out = []
            for o in case['ops']:
                if o['op'] == 'set':
                    R.set_regeneration(o['kind'], o['value'])
                else:
                    out.append(bool(r._should_regenerate(o['kind'])))
            return [out]
        finally:
            ReferenceTest.regenerate.clear()
            ReferenceTest.regenerate.update(saved)

    def canon_model(self, case, outs):
        return [o['ok'] if 'ok' in o else {'exc': o.get('exc')} for o in outs]

    def nontrivial_key(self, case):
        self.count('kind_' + case['kind'])
        if case['kind'] == 'pytest_opts':
            return json.dumps(case, sort_keys=True) if (case['write_all'] or case['write']) else None
        if case['kind'] == 'cmdline':
            return json.dumps(case['argv']) if any(a in case['argv'] for a in ('-w', '--w', '--write', '--write-all', '--W', '-W')) else None
        kinds = {o['op'] for o in case['ops']}
        for k in kinds:
            self.count('op_' + k)
        return json.dumps(case, sort_keys=True) if 'set' in kinds and len(kinds) > 1 else None

    def oracle(self, case):
        F = []
        fail = lambda clause, detail, key=None: F.append(core.Failure(clause, case, detail, key or clause))
        if case['kind'] == 'pytest_opts':
            got = self._pytest_ref(case)
            if 'exc' in got:
                fail('pytest-ref-raises', got['exc'])
                return F
            named = [k for w_ in (case['write'] or []) for k in w_.split(',')]
            for k, g in zip(self.PYTEST_KINDS, got['regen']):
                w = case['write_all'] or k in named
                if bool(g) != w:
                    fail('pytest-table', 'pytest options %r: kind %r regenerated=%s expected %s'
                         % ({k_: case[k_] for k_ in ('write_all', 'write')}, k, g, w))
            if bool(got['unnamed']) != bool(case['write_all']):
                fail('pytest-table', 'pytest options %r: assertions without a kind regenerated=%s'
                     % ({k_: case[k_] for k_ in ('write_all', 'write')}, got['unnamed']))
            return F
        if case['kind'] == 'cmdline':
            argv = case['argv']
            if c19.flag_after_write(argv):
                return F
            want = c19.spec_argv(argv)
            if want['err']:
                return F
            saved = dict(ReferenceTest.regenerate)
            ReferenceTest.regenerate.clear()
            try:
                try:
                    rtc._set_flags_from_argv(list(argv))
                except Exception as e:
                    fail('cmdline-raises', repr(e))
                    return F
                table = dict(ReferenceTest.regenerate)
            finally:
                ReferenceTest.regenerate.clear()
                ReferenceTest.regenerate.update(saved)
                rtc.ReferenceTestCase.verbose = True
            named = [k for k in want['regen'] if k is not None]
            allk = None in want['regen']
            for k in ['table', 'graph', 'csv', 'a', 'b', 'other']:
                w = allk or k in named
                g = should(table, k)
                if bool(g) != w:
                    fail('cmdline-table', '%r: kind %r regenerated=%s expected %s (table %r)' % (argv, k, g, w, table))
            return F
        import contextlib, io
        with contextlib.redirect_stdout(io.StringIO()), contextlib.redirect_stderr(io.StringIO()):
            obs = run_history(case['ops'], self._pre(case))
        table = {}
        for o, ob in zip(case['ops'], obs):
            if o['op'] == 'set':
                table[o['kind']] = o['value']
                continue
            regen = should(table, o['kind'])
            which = o['op']
            if ob['others_changed']:
                fail('other-reference-touched', '%s changed %r' % (which, ob['others_changed']))
            if not regen:
                if ob['after'] != ob['before']:
                    fail('normal-mode-writes', '%s assertion in normal mode changed its reference' % which,
                         'normal-mode-writes:' + which)
            else:
                if ob['exc'] is not None:
                    fail('regen-raises', '%s: %r' % (which, ob['exc']), 'regen-raises:%s:%s' % (which, type(ob['exc']).__name__))
                    continue
                if ob['asserted']:
                    fail('regen-not-taken', '%s assertion compared instead of regenerating' % which)
                    continue
                if ob['after'] is None:
                    fail('regen-no-file', '%s: no reference written' % which)
                    continue
                if ob['recheck'] is not True:
                    key = 'regen-then-check:' + which
                    if which == 'frame':
                        retyped = sorted(set(re.findall(r'Wrong column type for field \S+ actual: (.*?); expected: (.*?)\)?\n',
                                                        (ob.get('recheck_msg') or '') + '\n')))
                        if retyped:
                            # one key per (dtype given, dtype read back) pair: the listed findings name the pairs that
                            # do not survive the parquet round trip on the unchanged code; any other pair is new
                            for a_, e_ in retyped[1:]:
                                fail('regen-then-check', 'frame: column of dtype %s is read back from the regenerated reference as %s'
                                     % (a_, e_), 'regen-then-check:frame:parquet-retypes-column:%s->%s' % (a_, e_))
                            key += ':parquet-retypes-column:%s->%s' % retyped[0]
                        else:
                            key += ':variant%d' % o.get('variant', 0)
                    fail('regen-then-check', '%s: after regeneration the same assertion gives %r %s'
                         % (which, ob['recheck'], (ob.get('recheck_msg') or '')[:200]), key)
                if ob.get('after_recheck') != ob['after']:
                    fail('normal-mode-writes', 'recheck changed the reference', 'normal-mode-writes:' + which)
        return F


PROP = C10
