"""C16 - CSV files described by CSVW metadata load with the declared types and values."""
import datetime as dt
import io
import itertools
import json
import os
import shutil
import tempfile
import contextlib

import core
import translate

core.setup_repo_path()
import numpy as np  # noqa: E402
import pandas as pd  # noqa: E402
from tdda.serial import csvw as csvwmod  # noqa: E402
from tdda.serial.reader import csv2pandas  # noqa: E402

TOKS = ['d', 'dd', 'M', 'MM', 'yy', 'yyyy', 'HH', 'mm', 'ss', 'S', 'SS', 'SSS']
SEPS = ['-', '/', '.', ':', ' ', 'T']
DIRECTIVE = {'d': '%d', 'dd': '%d', 'M': '%m', 'MM': '%m', 'yy': '%y', 'yyyy': '%Y', 'HH': '%H',
             'mm': '%M', 'ss': '%S', 'S': '%f', 'SS': '%f', 'SSS': '%f'}
FIELD = {'d': 'day', 'dd': 'day', 'M': 'month', 'MM': 'month', 'yy': 'year', 'yyyy': 'year', 'HH': 'hour',
         'mm': 'minute', 'ss': 'second', 'S': 'frac', 'SS': 'frac', 'SSS': 'frac'}
from pandas._libs.parsers import STR_NA_VALUES as NA_TOKENS  # noqa: E402
ISO_FORMS = ['%Y-%m-%d', '%Y-%m-%dT%H:%M:%S', '%Y-%m-%d %H:%M:%S', '%Y-%m-%dT%H:%M:%S.%f', '%Y-%m-%d %H:%M:%S.%f']


ABSENT = '\x00absent'
DIALECT_VALUES = [ABSENT, None, True, False, 0, 1, 2, 'x']


def dialect_header_kw(header, count, names):
    """what the real metadata reader and to_pandas_read_csv_args make of the two dialect keys: the names handed to
    read_csv together with header=None, or None when the header row is kept"""
    from tdda.serial.csvw import CSVWMetadata
    from tdda.serial.pandasio import to_pandas_read_csv_args
    dialect = {}
    if header != ABSENT:
        dialect['header'] = header
    if count != ABSENT:
        dialect['headerRowCount'] = count
    spec = {'@context': 'http://www.w3.org/ns/csvw', 'url': 't.csv',
            'tableSchema': {'columns': [{'name': n, 'datatype': 'string'} for n in names]}, 'dialect': dialect}
    try:
        with contextlib.redirect_stdout(io.StringIO()), contextlib.redirect_stderr(io.StringIO()):
            kw = to_pandas_read_csv_args(CSVWMetadata(spec, verbosity=0))
    except Exception as e:   # noqa
        return {'exc': type(e).__name__}
    if 'header' in kw and kw['header'] is None:
        return kw.get('names')
    return None


def title_of(case, ci, c):
    """the header text of column number ci: in a fifth of the tables with a header row, every other column has a title of
    its own (declared in the metadata as `titles`), the rest are headed by their names"""
    if case['header'] and case['nrow'] % 5 == 2 and ci % 2 == 0:
        return c['name'] + ' (T)'
    return c['name']


def render(toks, seps):
    out = toks[0]
    for s, t in zip(seps, toks[1:]):
        out += s + t
    return out


def expected_fmt(toks, seps):
    out = DIRECTIVE[toks[0]]
    for s, t in zip(seps, toks[1:]):
        out += s + DIRECTIVE[t]
    return 'ISO8601' if out in ISO_FORMS else out


def write_instant(toks, seps, v):
    """The harness's own CSVW (UAX35-style) writer for an instant given as a field dict."""
    def one(t):
        if t == 'd':
            return str(v['day'])
        if t == 'dd':
            return '%02d' % v['day']
        if t == 'M':
            return str(v['month'])
        if t == 'MM':
            return '%02d' % v['month']
        if t == 'yy':
            return '%02d' % (v['year'] % 100)
        if t == 'yyyy':
            return '%04d' % v['year']
        if t == 'HH':
            return '%02d' % v['hour']
        if t == 'mm':
            return '%02d' % v['minute']
        if t == 'ss':
            return '%02d' % v['second']
        n = len(t)   # S, SS, SSS: fraction digits
        return ('%06d' % v['micro'])[:n]
    out = one(toks[0])
    for s, t in zip(seps, toks[1:]):
        out += s + one(t)
    return out


def rand_instant(rng, toks):
    """An instant representable in the pattern (fields not written stay at strptime defaults)."""
    fields = {FIELD[t] for t in toks}
    v = {'year': 1900, 'month': 1, 'day': 1, 'hour': 0, 'minute': 0, 'second': 0, 'micro': 0}
    if 'year' in fields:
        v['year'] = rng.choice([1970, 1999, 2000, 2024, 2068, rng.randint(1969, 2068)]) if 'yy' in toks \
            else rng.choice([1700, 1900, 1969, 2000, 2024, 2100, rng.randint(1678, 2261)])
    if 'month' in fields:
        v['month'] = rng.randint(1, 12)
    if 'day' in fields:
        v['day'] = rng.randint(1, 28) if rng.random() < 0.8 else rng.choice([29, 30, 31])
        # keep it a valid civil date
        while True:
            try:
                dt.date(v['year'] if v['year'] % 4 or 'year' in fields else 1900, v['month'], v['day'])
                break
            except ValueError:
                v['day'] -= 1
    if 'hour' in fields:
        v['hour'] = rng.randint(0, 23)
    if 'minute' in fields:
        v['minute'] = rng.randint(0, 59)
    if 'second' in fields:
        v['second'] = rng.randint(0, 59)
    if 'frac' in fields:
        n = max(len(t) for t in toks if FIELD[t] == 'frac')
        v['micro'] = rng.randrange(10 ** n) * 10 ** (6 - n)
    return v


def near_iso_pattern(rng):
    """the ISO 8601 layout with (mostly) ISO separators: what the ISO8601 collapse must tell apart"""
    toks = ['yyyy', 'MM', 'dd', 'HH', 'mm', 'ss']
    seps = ['-', '-', rng.choice([' ', 'T']), ':', ':']
    if rng.random() < 0.7:
        toks.append(rng.choice(['S', 'SS', 'SSS']))
        seps.append(rng.choice(['.', '.', ':', '-', '/', ' ', 'T']))
    if rng.random() < 0.3:
        i = rng.randrange(len(seps))
        seps[i] = rng.choice(SEPS)
    if rng.random() < 0.2:
        toks, seps = toks[:3], seps[:2]
    return toks, seps


def sensible_pattern(rng):
    if rng.random() < 0.2:
        return near_iso_pattern(rng)
    """A pattern with each field kind at most once, in a plausible layout."""
    dsep = rng.choice(['-', '/', '.', ' '])
    dparts = [rng.choice(['d', 'dd']), rng.choice(['M', 'MM']), rng.choice(['yy', 'yyyy'])]
    rng.shuffle(dparts)
    if rng.random() < 0.15:
        dparts = dparts[:2]
    toks, seps = list(dparts), [dsep] * (len(dparts) - 1)
    if rng.random() < 0.6:
        tparts = ['HH', 'mm']
        tseps = [':']
        if rng.random() < 0.7:
            tparts.append('ss')
            tseps.append(rng.choice([':', '.']) if rng.random() < 0.2 else ':')
            if rng.random() < 0.5:
                tparts.append(rng.choice(['S', 'SS', 'SSS']))
                tseps.append('.' if rng.random() < 0.6 else rng.choice([':', '-', '/', ' ']))
        if rng.random() < 0.1:
            toks, seps = tparts, tseps   # time only
        else:
            seps = seps + [rng.choice([' ', 'T'])] + tseps
            toks = toks + tparts
    return toks, seps


class C16(core.Prop):
    pid = 'C16'
    lean_modules = ['TddaVerif.Props.C16']
    theorems = ['TddaVerif.Props.C16.' + t for t in [
        'chain_ok', 'applyChain_append_sep', 'token_translated', 'separated_translated',
        'translate_separated', 'unseparated_forms', 'adjacent_month_minute_unsound',
        'iso_collapse_sound', 'iso_regex_source', 'dtype_table', 'dtype_table_total',
        'headerless_iff', 'declared_headerless', 'default_has_header', 'tie_header_rule']] + [
        'TddaVerif.Py.replace_append_sep']
    quick_n = 1500
    thorough_n = 60000
    rule = ('cases: (fmt) CSVW date patterns: every separated sequence of <= 2 fields exhaustively (quick) / '
            '<= 3 fields (thorough), random separated sequences up to 7 fields, sensible layouts, plus malformed '
            'stream (contains %, empty, adjacent fields, extension tokens, other letters); for sensible layouts an '
            'instant representable in the pattern is written by the harness writer and read back with '
            'pandas.to_datetime(format=translated); (table) typed tables x delimiter x encoding x header x '
            'date patterns x boolean spellings written by the harness, loaded with csv2pandas; (dialect) header x headerRowCount, '
            'each absent / null / true / false / 0 / 1 / 2 / a string. '
            'non-trivial = pattern with >= 2 fields, or table with >= 1 row and >= 2 columns; distinct by content')
    trusted_base = [
        'the translator harness/translate.py (ast walk of csvw_date_format_to_md_date_format) that regenerates Generated/Csvw.lean',
        'pandas.read_csv / to_datetime (strptime semantics) are not modelled: the read-back of instants and the table round trip are decided by the oracle on the real code',
        'modelled: csvw_date_format_to_md_date_format incl. the % short-circuit, extensions chain and ISO8601 collapse (tied by the date_format op); the type tables (generated); the header rule of process_dialect / to_pandas_read_csv_args (expression, keys and test regenerated; tied by the dialect op on all 64 combinations of eight values of the two keys)',
    ]

    def translate(self):
        return translate.regenerate(['Csvw'])

    def corpus(self):
        out = []
        lim = 3 if self.tier == 'thorough' else 2
        for n in range(1, lim + 1):
            for toks in itertools.product(TOKS, repeat=n):
                for seps in itertools.product(SEPS, repeat=n - 1):
                    out.append({'kind': 'fmt', 'toks': list(toks), 'seps': list(seps), 'ext': False})
        for f in ['', '%Y-%m-%d', 'dd/MM/yyyy%', 'MMmm', 'yyyyMMdd', 'HHmmss', 'ddMMyyyy', 'yyyy-MM-ddTHH:mm:ss+ZZ:zz',
                  'yyyy-MM-dd HH:mm:ss+ZZzz', 'd MMM yyyy', 'EEE dd', 'yyyy-MM-dd\n', 'y-M-d', 'hh:mm', 'ddd', 'SSSS',
                  'yyyyy', 'mmm', 'dd-MM-yyyy HH:mm:ss.SSS']:
            out.append({'kind': 'rawfmt', 'fmt': f, 'ext': False})
            out.append({'kind': 'rawfmt', 'fmt': f, 'ext': True})
        # every combination of the two dialect keys that say whether there is a header row
        for h in DIALECT_VALUES:
            for c in DIALECT_VALUES:
                out.append({'kind': 'dialect', 'header': h, 'count': c})
        return out

    def gen_case(self, rng, i):
        r = rng.random()
        if r < 0.3:
            toks, seps = sensible_pattern(rng)
            return {'kind': 'fmt', 'toks': toks, 'seps': seps, 'ext': rng.random() < 0.2,
                    'instant': rand_instant(rng, toks)}
        if r < 0.5:
            n = rng.randint(1, 7)
            return {'kind': 'fmt', 'toks': [rng.choice(TOKS) for _ in range(n)],
                    'seps': [rng.choice(SEPS) for _ in range(n - 1)], 'ext': rng.random() < 0.2}
        if r < 0.6:
            alphabet = TOKS + SEPS + ['%', 'Z', 'z', '+', 'h', 'y', 'm', 's', 'E', ',', 'x']
            return {'kind': 'rawfmt', 'fmt': ''.join(rng.choice(alphabet) for _ in range(rng.randint(0, 8))),
                    'ext': rng.random() < 0.5}
        return self.gen_table(rng)

    def gen_table(self, rng):
        ncol = rng.randint(1, 5)
        nrow = rng.choice([0, 1, 2, 3, 5, 8])
        cols = []
        for c in range(ncol):
            typ = rng.choice(['boolean', 'integer', 'number', 'string', 'date', 'datetime'])
            name = rng.choice(['a', 'b', 'col', 'x y', 'été', 'n°', 'f']) + str(c)
            col = {'name': name, 'type': typ}
            nullp = rng.choice([0, 0, 0.2, 0.5, 1.0])
            vals = []
            if typ == 'boolean':
                col['format'] = rng.choice([None, 'Y|N', 'true|false', '1|0', 'yes|no', 'T|F'])
            if typ == 'date':
                while True:
                    toks, seps = sensible_pattern(rng)
                    if all(FIELD[t] in ('day', 'month', 'year') for t in toks) and len(toks) == 3:
                        break
                col['toks'], col['seps'] = toks, seps
                if rng.random() < 0.25:
                    col['toks'], col['seps'] = None, None   # no format: ISO default
            if typ == 'datetime':
                while True:
                    toks, seps = sensible_pattern(rng)
                    if {'day', 'month', 'year', 'hour'} <= {FIELD[t] for t in toks}:
                        break
                col['toks'], col['seps'] = toks, seps
                if rng.random() < 0.25:
                    col['toks'], col['seps'] = None, None
            for _ in range(nrow):
                if rng.random() < nullp:
                    vals.append(None)
                elif typ == 'boolean':
                    vals.append(rng.random() < 0.5)
                elif typ == 'integer':
                    vals.append(rng.choice([0, 1, -1, 7, 2 ** 31, -2 ** 40, 2 ** 62, rng.randint(-1000, 1000)]))
                elif typ == 'number':
                    vals.append(rng.choice([0.0, 1.5, -2.25, 1e10, 1e-5, 3.0, rng.randint(-999, 999) / 8]))
                elif typ == 'string':
                    vals.append(rng.choice(['a', 'hello', 'été', 'x y', 'a,b', 'q"uote', 'semi;colon', 'p|ipe',
                                            'tab\tbed', '日本', '007', '1.5', 'true', ' lead', 'trail ', 'NA', 'null',
                                            'ÿ', 'multi\nline',
                                            # Latin-1's C1 range (0x80-0x9F: other characters in Windows-1252, five undefined)
                                            'a\x91b', 'n\x80x', 'k\x9d', '\x81z', 'flat #4', '#1 hit']))
                else:
                    toks = col['toks'] or (['yyyy', 'MM', 'dd'] if typ == 'date' else ['yyyy', 'MM', 'dd', 'HH', 'mm', 'ss'])
                    vals.append(rand_instant(rng, toks))
            col['vals'] = vals
            cols.append(col)
        return {'kind': 'table', 'cols': cols, 'nrow': nrow,
                'delimiter': rng.choice([',', ',', '|', '\t', ';', None]),
                'encoding': rng.choice(['utf-8', 'utf-8', 'latin-1', 'utf-16', None, 'iso-8859-1', 'latin-1']),
                'header': rng.choice([True, True, True, False]), 'no_header_how': rng.randrange(3)}

    # ---------------------------------------------------------------
    def _fmt(self, case):
        return render(case['toks'], case['seps']) if case['kind'] == 'fmt' else case['fmt']

    def model_ops(self, case):
        if case['kind'] == 'dialect':
            return [{'op': 'c16.dialect', 'header': case['header'], 'count': case['count'], 'names': ['a', 'b c']}]
        if case['kind'] == 'table':
            ops = []
            for c in case['cols']:
                ops.append({'op': 'c16.pandas_dtype', 't': c['type']})
                if c.get('toks'):
                    ops.append({'op': 'c16.date_format', 'fmt': render(c['toks'], c['seps']), 'ext': False})
            return ops
        return [{'op': 'c16.date_format', 'fmt': self._fmt(case), 'ext': case['ext']}]

    def impl_outputs(self, case):
        from tdda.serial.pandasio import MTYPE_TO_PANDAS_DTYPE
        if case['kind'] == 'dialect':
            return [dialect_header_kw(case['header'], case['count'], ['a', 'b c'])]
        if case['kind'] == 'table':
            out = []
            for c in case['cols']:
                out.append(MTYPE_TO_PANDAS_DTYPE.get(csvwmod.CSVW_TYPE_TO_MTYPE.get(c['type'])))
                if c.get('toks'):
                    out.append(csvwmod.csvw_date_format_to_md_date_format(render(c['toks'], c['seps'])))
            return out
        return [csvwmod.csvw_date_format_to_md_date_format(self._fmt(case), extensions=case['ext'])]

    def canon_model(self, case, outs):
        return [o['ok'] if 'ok' in o else {'exc': o.get('exc')} for o in outs]

    def nontrivial_key(self, case):
        if case['kind'] == 'fmt':
            self.count('fmt_fields_%d' % min(len(case['toks']), 8))
            if len(case['toks']) >= 2:
                return 'f:' + self._fmt(case) + json.dumps(case.get('instant'), sort_keys=True)
            return None
        if case['kind'] == 'rawfmt':
            self.count('rawfmt')
            return None
        if case['kind'] == 'dialect':
            self.count('dialect')
            return json.dumps(case, sort_keys=True)
        self.count('table')
        if case['nrow'] >= 1 and len(case['cols']) >= 2:
            return json.dumps(case, sort_keys=True, default=str)
        return None

    # ---------------------------------------------------------------
    def oracle(self, case):
        F = []
        fail = lambda clause, detail, key=None: F.append(core.Failure(clause, case, detail, key or clause))
        if case['kind'] == 'dialect':
            # the documented reading: header: false or headerRowCount: 0 -> no header row, names from the metadata
            got = dialect_header_kw(case['header'], case['count'], ['a', 'b c'])
            h, c = case['header'], case['count']
            zero = lambda v: v is False or (isinstance(v, (int, float)) and not isinstance(v, bool) and v == 0)
            declared = zero(h) or zero(c)
            want = ['a', 'b c'] if declared else None
            if got != want:
                fail('header-row', 'dialect header=%r headerRowCount=%r: read_csv gets names %r, expected %r' % (h, c, got, want))
            return F
        if case['kind'] == 'rawfmt':
            try:
                csvwmod.csvw_date_format_to_md_date_format(case['fmt'], extensions=case['ext'])
            except Exception as e:
                fail('date-format-raises', repr(e))
            return F
        if case['kind'] == 'fmt':
            toks, seps = case['toks'], case['seps']
            fmt = render(toks, seps)
            try:
                got = csvwmod.csvw_date_format_to_md_date_format(fmt, extensions=case['ext'])
            except Exception as e:
                fail('date-format-raises', repr(e))
                return F
            want = expected_fmt(toks, seps)
            if got != want:
                fail('date-format', '%r -> %r, field-by-field translation is %r' % (fmt, got, want),
                     'date-format:' + '+'.join(sorted(set(toks))))
                self.count('fmt_wrong')
            if 'instant' in case:
                v = case['instant']
                text = write_instant(toks, seps, v)
                try:
                    ts = pd.to_datetime(pd.Series([text]), format=got)[0]
                except Exception as e:
                    fail('read-back-raises', '%r written %r format %r: %r' % (fmt, text, got, e))
                    return F
                fields = {FIELD[t] for t in toks}
                gotv = {'year': ts.year, 'month': ts.month, 'day': ts.day, 'hour': ts.hour,
                        'minute': ts.minute, 'second': ts.second, 'frac': ts.microsecond}
                wantv = dict(v, frac=v['micro'])
                bad = [k for k in fields if gotv[k] != wantv[k]]
                if bad:
                    fail('read-back', '%r written %r read %s, fields %s differ' % (fmt, text, ts, bad))
                self.count('instants_read_back')
            return F
        return self.oracle_table(case, fail, F)

    def oracle_table(self, case, fail, F):
        # every table of a run is written to the same paths (data and metadata regenerated in place, as a pipeline does)
        if getattr(self, '_tdir', None) is None:
            self._tdir = tempfile.mkdtemp(prefix='c16_')
            import atexit
            atexit.register(lambda p_=self._tdir: shutil.rmtree(p_, ignore_errors=True))
        d = self._tdir
        for fn in os.listdir(d):
            os.remove(os.path.join(d, fn))
        try:
            delim = case['delimiter'] or ','
            enc = case['encoding'] or 'utf-8'

            single = len(case['cols']) == 1

            def cell(col, v):
                if v is None:
                    # a lone empty field would be a blank line, which CSV readers skip:
                    # write it quoted, as pandas.to_csv itself does
                    return '""' if single else ''
                t = col['type']
                if t == 'boolean':
                    f = col.get('format') or 'true|false'
                    a, b = f.split('|')
                    return a if v else b
                if t == 'integer':
                    return str(v)
                if t == 'number':
                    return repr(v)
                if t == 'string':
                    s = v
                else:
                    toks = col['toks'] or ['yyyy', 'MM', 'dd']
                    seps = col['seps'] or ['-', '-']
                    if col['toks'] is None and t == 'datetime':
                        toks, seps = ['yyyy', 'MM', 'dd', 'HH', 'mm', 'ss'], ['-', '-', 'T', ':', ':']
                    s = write_instant(toks, seps, v)
                # (blanks at either end are data, quoted or not: every other table writes them unquoted)
                if any(ch in s for ch in (delim, '"', '\n', '\r')) or (s != s.strip() and case['nrow'] % 2 == 0) or s == '' \
                        or (s != s.strip() and delim in (' ', '\t')) or s.strip() == '':
                    s = '"' + s.replace('"', '""') + '"'
                return s
            lines = []
            if case['header']:
                # (some columns may carry a title - what the header row of the file says - that differs from the declared name)
                lines.append(delim.join(cell({'type': 'string'}, title_of(case, ci, c)) for ci, c in enumerate(case['cols'])))
            for r in range(case['nrow']):
                lines.append(delim.join(cell(c, c['vals'][r]) for c in case['cols']))
            text = ''.join(l + '\n' for l in lines)
            try:
                data = text.encode(enc)
            except UnicodeEncodeError:
                return F   # not representable in this encoding: not a case
            csvpath = os.path.join(d, 't.csv')
            with open(csvpath, 'wb') as f:
                f.write(data)
            columns = []
            for c in case['cols']:
                if c['type'] in ('date', 'datetime') and c.get('toks'):
                    dtp = {'base': c['type'], 'format': render(c['toks'], c['seps'])}
                elif c['type'] == 'boolean' and c.get('format'):
                    dtp = {'base': 'boolean', 'format': c['format']}
                else:
                    dtp = c['type']
                columns.append({'name': c['name'], 'datatype': dtp})
                if case['header'] and title_of(case, len(columns) - 1, c) != c['name']:
                    columns[-1]['titles'] = title_of(case, len(columns) - 1, c)
            dialect = {}
            if case['delimiter']:
                dialect['delimiter'] = case['delimiter']
            if case['encoding']:
                dialect['encoding'] = case['encoding']
            if not case['header']:
                # the three ways a CSVW dialect says "no header row": both keys, headerRowCount: 0 alone, header: false alone
                how = case.get('no_header_how', 0)
                if how != 1:
                    dialect['header'] = False
                if how != 2:
                    dialect['headerRowCount'] = 0
            if case['nrow'] % 4 == 1:
                dialect['commentPrefix'] = '#'      # (comments are whole lines that begin with the prefix; none is written here)
            md = {'@context': 'http://www.w3.org/ns/csvw', 'url': 't.csv',
                  'tableSchema': {'columns': columns}}
            if dialect:
                md['dialect'] = dialect
            mdpath = os.path.join(d, 't.csv-metadata.json')
            with open(mdpath, 'w') as f:
                json.dump(md, f)
            hk = ''
            try:
                with contextlib.redirect_stdout(io.StringIO()), contextlib.redirect_stderr(io.StringIO()):
                    # (declared types hold whatever the reader is allowed to upgrade: a third of the tables ask for
                    # whole-number reals to be upgraded to integers, which concerns undeclared columns only)
                    df = csv2pandas(csvpath, mdpath, upgrade_possible_ints=True) if case['nrow'] % 3 == 0 else csv2pandas(csvpath, mdpath)
            except Exception as e:
                kinds = sorted({c['type'] for c in case['cols']})
                fail('load-raises', '%s: %s' % (type(e).__name__, str(e)[:200]),
                     hk + 'load-raises:%s' % type(e).__name__)
                return F
            names = [c['name'] for c in case['cols']]
            if list(df.columns) != names:
                fail('names', 'columns %r want %r' % (list(df.columns), names), hk + 'names')
                return F
            if len(df) != case['nrow']:
                fail('rowcount', '%d rows want %d' % (len(df), case['nrow']), hk + 'rowcount')
                return F
            for c in case['cols']:
                s = df[c['name']]
                t = c['type']
                dn = str(s.dtype)
                okd = {'boolean': dn == 'boolean', 'integer': dn == 'Int64', 'number': dn == 'float64',
                       'string': dn in ('string', 'str'), 'date': dn.startswith('datetime64'),
                       'datetime': dn.startswith('datetime64')}[t]
                if not okd:
                    allnull = all(v is None for v in c['vals'])
                    fail('dtype', 'column %r declared %s loaded as %s' % (c['name'], t, dn),
                         hk + 'dtype:%s:%s%s' % (t, dn, ':allnull' if allnull else ''))
                    continue
                for r, v in enumerate(c['vals']):
                    g = s.iloc[r]
                    if v is None:
                        if not pd.isnull(g):
                            fail('value', 'column %r row %d: null read as %r' % (c['name'], r, g), hk + 'value:null:' + t)
                        continue
                    if pd.isnull(g):
                        key = 'value:%s:read-as-null' % t
                        if t == 'string':
                            key += ':pandas-na-token' if v in NA_TOKENS else ':' + v
                        fail('value', 'column %r row %d: %r read as null' % (c['name'], r, v), hk + key)
                        continue
                    if t in ('date', 'datetime'):
                        toks = c['toks'] or (['yyyy', 'MM', 'dd'] if t == 'date' else ['yyyy', 'MM', 'dd', 'HH', 'mm', 'ss'])
                        fields = {FIELD[x] for x in toks}
                        gv = {'year': g.year, 'month': g.month, 'day': g.day, 'hour': g.hour, 'minute': g.minute,
                              'second': g.second, 'frac': g.microsecond}
                        wv = dict(v, frac=v['micro'])
                        if any(gv[k] != wv[k] for k in fields):
                            fail('value', 'column %r row %d: instant %r read as %s' % (c['name'], r, v, g), hk + 'value:' + t)
                    elif t == 'string':
                        if g != v:
                            fail('value', 'column %r row %d: %r read as %r' % (c['name'], r, v, g), hk + 'value:string')
                    elif t == 'number':
                        if float(g) != v:
                            fail('value', 'column %r row %d: %r read as %r' % (c['name'], r, v, g), hk + 'value:number')
                    else:
                        if (bool(g) if t == 'boolean' else int(g)) != v:
                            fail('value', 'column %r row %d: %r read as %r' % (c['name'], r, v, g), hk + 'value:' + t)
            return F
        finally:
            pass


PROP = C16
