"""C04 - text comparison passes exactly when texts agree modulo declared exclusions."""
import json
import os

import core
import cfcommon as cf


class C04(core.Prop):
    pid = 'C04'
    lean_modules = ['TddaVerif.Props.C04']
    theorems = ['TddaVerif.Props.C04.' + t for t in ['default_encoding', 'explicit_encoding_wins', 'tie_guess_encoding', 'checkPatterns_sound', 'checkPatterns_complete', 'lineOKb_iff',
        'check_pass_iff', 'identical_passes', 'different_length_fails', 'unexcused_difference_fails', 'sorted_eq_iff_perm']]
    quick_n = 1800
    thorough_n = 30000
    rule = ('cases: reference text of 0..6 lines from a pool (digits, versions, dates, blanks, unicode, leading/'
            'trailing blanks) and an actual text derived by 0..3 near-miss edits (char change, number change, '
            'blank added, case, line inserted/deleted/swapped), LF/CRLF, with/without final newline, x random '
            'subsets of {lstrip, rstrip, ignore_substrings, ignore_patterns, remove_lines, preprocess, '
            'max_permutation_cases} x entry point {string-vs-file, file-vs-file, list-of-files}. '
            'non-trivial = texts differ and at least one option set; distinct by content')
    trusted_base = [
        'CPython re (enters the model as the table of re.match results on the lines of the case and their group(1)/group(last) pieces)',
        'file decoding / universal newlines (the harness feeds the model the lines exactly as open().read().splitlines() yields them)',
    ]

    def corpus(self):
        return [
            {'entry': 'string', 'actual': 'abc\n\n', 'expected': 'abc\n', 'opts': {}},
            {'entry': 'string', 'actual': 'took 12 ms\n', 'expected': 'took 345 ms\n', 'opts': {'ignore_patterns': [r'\d+']}},
            {'entry': 'file', 'actual': 'a\nb\n', 'expected': 'b\na\n', 'opts': {'max_permutation_cases': 2}},
            {'entry': 'string', 'actual': 'x\nuser bob\ny\n', 'expected': 'x\ny\n', 'opts': {'remove_lines': ['user']}},
        ]

    RAW_PAIRS = [
        # (reference bytes, actual bytes, keyword arguments): text that cannot be decoded as asked, differing in such bytes
        (b'Ren\xe9\n', b'Ren\xe8\n', {}), (b'caf\xe9 1\nb\n', b'caf\xea 1\nb\n', {}), (b'a\n\xff\xfe\n', b'a\n\xff\xfd\n', {}),
        ('é\n'.encode('utf-8'), 'è\n'.encode('utf-8'), {'encoding': 'ascii'}),
        ('x\né y\n'.encode('utf-8'), 'x\nê y\n'.encode('utf-8'), {'encoding': 'ascii'}),
        (b'Ren\xe9\n', b'Ren\xe9\n', {}),
    ]

    ENC_PATHS = ['ref/out.txt', 'ref/Report.PDF', 'x.pdf', 'a.b/c', 'noext', '.pdf', 'dir.pdf/file', 'x.Pdf', 'data.csv', '', 'x.pdf.txt',
                 'archive.tar.pdf', 'UPPER.TXT', 'a/.hidden.pdf']
    ENC_NAMES = [None, None, 'utf-8', 'UTF8', 'utf8', 'Latin-1', 'ascii', 'UTF-16', 'iso-8859-1', 'CP932', 'utf-8-sig']

    def translate(self):
        import translate
        return translate.regenerate(['Utils'])

    def gen_case(self, rng, i):
        if rng.random() < 0.03:
            return {'entry': 'enc', 'path': rng.choice(self.ENC_PATHS), 'enc': rng.choice(self.ENC_NAMES), 'opts': {}}
        if rng.random() < 0.03:
            e, a, kw = rng.choice(self.RAW_PAIRS)
            return {'entry': rng.choice(['rawfile', 'rawfiles']), 'expected_hex': e.hex(), 'actual_hex': a.hex(), 'opts': dict(kw)}
        return cf.gen_case(rng)

    def run_raw(self, case):
        import os, shutil, tempfile
        root = tempfile.mkdtemp(prefix='cfr_')
        try:
            os.makedirs(os.path.join(root, 'tmp'))
            ref, act = os.path.join(root, 'ref.txt'), os.path.join(root, 'act.txt')
            with open(ref, 'wb') as f:
                f.write(bytes.fromhex(case['expected_hex']))
            with open(act, 'wb') as f:
                f.write(bytes.fromhex(case['actual_hex']))
            res = {}

            class R(cf._Ref):
                tmp_dir = os.path.join(root, 'tmp')
            R.regenerate = {}
            r = R(lambda ok, msg: res.update(passed=bool(ok)))
            try:
                if case['entry'] == 'rawfile':
                    r.assertTextFileCorrect(act, ref, **case['opts'])
                else:
                    r.assertTextFilesCorrect([act], [ref], **case['opts'])
            except Exception as e:   # noqa
                return {'passed': False, 'exc': type(e).__name__}
            return {'passed': bool(res.get('passed')), 'exc': None}
        finally:
            shutil.rmtree(root, ignore_errors=True)

    def model_ops(self, case):
        if case['entry'] == 'enc':
            return [{'op': 'c04.encoding', 'path': case['path'], 'enc': case['enc']}]
        if case['entry'].startswith('raw'):
            return []
        try:
            return [cf.model_op(case)]
        except ValueError:
            return []

    def impl_outputs(self, case):
        if case['entry'] == 'enc':
            from tdda.referencetest.utils import get_encoding
            try:
                return [get_encoding(case['path'], case['enc'])]
            except Exception as e:   # noqa
                return [{'exc': type(e).__name__}]
        if case['entry'].startswith('raw'):
            return []
        return [cf.impl_output(case)]

    def canon_model(self, case, outs):
        return [o['ok'] if 'ok' in o else {'exc': o.get('exc')} for o in outs]

    def nontrivial_key(self, case):
        for k in case['opts']:
            self.count('opt_' + k)
        self.count('entry_' + case['entry'])
        if case['entry'] == 'enc':
            return None
        if case['entry'].startswith('raw'):
            return json.dumps(case, sort_keys=True) if case['actual_hex'] != case['expected_hex'] else None
        a, e = cf.lines_seen_by_code(case)
        if a != e and case['opts']:
            return json.dumps(case, sort_keys=True)
        return None

    def oracle(self, case):
        F = []
        fail = lambda clause, detail, key=None: F.append(core.Failure(clause, case, detail, key or clause))
        if case['entry'] == 'enc':
            # the documented default: UTF-8 unless another encoding is given (PDF files apart)
            from tdda.referencetest.utils import get_encoding
            got = get_encoding(case['path'], case['enc'])
            if case['enc'] is None and not case['path'].lower().endswith('.pdf') and got != 'utf-8':
                fail('default-encoding', 'no encoding given for %r: files are read as %r, documented default utf-8' % (case['path'], got))
            if case['enc'] is None and os.path.splitext(case['path'])[1].lower() == '.pdf' and got != 'iso-8859-1':
                fail('default-encoding', 'no encoding given for the PDF file %r (extensions are compared without regard to case): '
                     'read as %r, not iso-8859-1' % (case['path'], got), 'default-encoding:pdf')
            return F
        if case['entry'].startswith('raw'):
            # files that cannot be decoded as asked and differ: whatever the comparison does (refuse, fail), it does not pass
            r = self.run_raw(case)
            if r['passed'] and case['actual_hex'] != case['expected_hex']:
                fail('false-pass', 'files differing in bytes that cannot be decoded (%s vs %s, %r) pass'
                     % (case['actual_hex'], case['expected_hex'], case['opts']), 'false-pass:undecodable-bytes')
            return F
        r = cf.run_assert(case)
        if r['exc'] is not None:
            fail('raises', repr(r['exc']), 'raises:' + type(r['exc']).__name__)
            return F
        want = cf.spec_agree(case)
        self.count('spec_pass' if want else 'spec_fail')
        if r['passed'] and not want:
            if cf.spec_agree(case, drop_trailing_empty=True):
                fail('false-pass', 'passes although the line counts differ by one trailing empty line',
                     'false-pass:trailing-empty-line')
            else:
                fail('false-pass', 'assertion passed; the stated rule says the texts differ')
        if (not r['passed']) and want:
            nopat = dict(case, opts={k: v for k, v in case['opts'].items() if k != 'ignore_patterns'})
            # (cause first: when the texts no longer agree once one trailing empty line is dropped before lines are removed,
            # that - the listed finding - explains the failure, whatever else the options excuse)
            if not cf.spec_agree(case, drop_trailing_empty=True):
                fail('false-fail', 'fails because one trailing empty line is dropped before lines are removed / counted',
                     'false-fail:trailing-empty-line')
            elif case['opts'].get('ignore_patterns') and not cf.spec_agree(nopat):
                fail('false-fail', 'assertion failed although the lines differ only in parts matched by an ignore-pattern',
                     'false-fail:ignore-pattern')
            elif not cf.spec_agree(case, perm_raw=True):
                fail('false-fail', 'the permutation allowance compares unstripped lines although lstrip/rstrip was requested',
                     'false-fail:permutation-ignores-stripping')
            else:
                fail('false-fail', 'assertion failed; the stated rule says the texts agree')
        # identical content passes under every option combination
        same = dict(case, actual=case['expected'])
        r2 = cf.run_assert(same)
        if r2['exc'] is not None or not r2['passed']:
            fail('identical-fails', 'identical content did not pass: %r' % (r2['exc'] or r2['message'],))
        return F


PROP = C04
