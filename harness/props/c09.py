"""C09 - .tdda files round-trip: same text, same verdicts, unknown keys ignored."""
import contextlib
import copy
import datetime as dt
import io
import json
import os
import shutil
import tempfile

import re

import core
import cxcommon as cx

core.setup_repo_path()
import pandas as pd  # noqa: E402
from tdda.constraints.base import DatasetConstraints, STANDARD_FIELD_CONSTRAINTS  # noqa: E402
from tdda.constraints import verify_df, discover_df  # noqa: E402
from props import c02  # noqa: E402

NAMES = ['a', 'b c', 'été', '日本', 'q"uote', 'back\\slash', 'x y', 'n\u0085l', 'tab\tname', '#hash', 'min', 'é',
         'e\u0301te\u0301', '\u2126 ohm', '\u212bngstr\u00f6m', '\ufb01']
STRS = ['a', '', ' ', 'été', '日本', 'q"t', "it's", 'back\\slash', 'new\nline', 'x y', 'n\u0085l', 'p q', 'tab\t',
        '\x1c', '\x0b', 'trailing  ', '\\d+', '^[A-Z]{2}\\-\\d+$', '^"$', "^'$", '\U0001f600',
        'cafe\u0301', '\u2126', '\u212b', 'ﬁn']
DATES = ['2020-01-02', '2020-01-02 03:04:05', '1999-12-31 23:59:59.500000', '2000-02-29T12:00:00', '2021/6/5',
         '2021-06-15 08:30:00.000001']
DATE_LIKE = re.compile(r'^\d{4}[-/]\d{1,2}[-/]\d{1,2}')


def gen_date(rng):
    """a date bound as it may stand in a .tdda file: the fixed spellings, or a timestamp with any microsecond part"""
    if rng.random() < 0.5:
        return rng.choice(DATES)
    if rng.random() < 0.3:
        # a bound of a timezone-aware column: seconds or a fraction, then a UTC offset (whole and half hours, either sign)
        return '%04d-%02d-%02d %02d:%02d:%02d%s%s' % (
            rng.choice([1999, 2000, 2021, 2038]), rng.randint(1, 12), rng.randint(1, 28), rng.randint(0, 23), rng.randint(0, 59),
            rng.randint(0, 59), rng.choice(['', '', '.%06d' % rng.randrange(10 ** 6), '.5', '.12345678901']),
            rng.choice(['+00:00', '-00:00', '+01:00', '-05:00', '+05:30', '-03:30', '-00:30', '+05:45', '-09:30', '+14:00', '-12:00',
                        '+23:59', '-23:59', '+24:00', '-24:00', '+25:00', '+00:60', '+12:99',
                        # local mean times: offsets with seconds
                        '+05:21:10', '-04:27:40', '-03:30:52', '+00:00:01', '-23:59:59', '+23:59:60', '+05:21:1', '+05:21:100']))
    return '%04d-%02d-%02d %02d:%02d:%02d.%06d' % (rng.choice([1999, 2000, 2021, 2038]), rng.randint(1, 12), rng.randint(1, 28),
                                                     rng.randint(0, 23), rng.randint(0, 59), rng.randint(0, 59),
                                                     rng.choice([rng.randrange(10 ** 6), rng.randrange(10 ** 6), 1001, 249, 999999]))


def is_date_text(v):
    return isinstance(v, str) and DATE_LIKE.match(v) is not None


FLOATS = [0.1, 1e-17, 1.7976931348623157e308, 123456789.12345678, -0.0, 2.5, 1e22, 5e-324]


def quiet():
    return contextlib.redirect_stderr(io.StringIO())


def gen_field(rng):
    kinds = rng.sample(list(STANDARD_FIELD_CONSTRAINTS)[:10], rng.randint(1, 6))
    d = {}
    ftype = rng.choice(['int', 'real', 'string', 'date', 'bool'])
    for k in kinds:
        if rng.random() < 0.08:
            d[k] = None
            continue
        if k == 'type':
            r_ = rng.random()
            d[k] = ftype if r_ < 0.7 else [ftype] if r_ < 0.82 else rng.sample(['int', 'real', 'bool', 'string', 'date'], 2)
        elif k in ('min', 'max'):
            if ftype == 'date':
                v = gen_date(rng)
            elif ftype == 'string':
                v = rng.choice(STRS)
            elif ftype == 'real':
                v = rng.choice(FLOATS)
            else:
                v = rng.choice([0, 1, -7, 2 ** 62, -2 ** 63, 10 ** 30])
            if rng.random() < 0.35:
                d[k] = {'value': v, 'precision': rng.choice(['open', 'closed', 'fuzzy'])}
            else:
                d[k] = v
        elif k in ('min_length', 'max_length', 'max_nulls'):
            d[k] = rng.randint(0, 40)
        elif k == 'sign':
            d[k] = rng.choice(['positive', 'non-negative', 'zero', 'non-positive', 'negative', 'null'])
        elif k == 'no_duplicates':
            d[k] = rng.choice([True, True, False])
        elif k == 'allowed_values':
            d[k] = [rng.choice(STRS) for _ in range(rng.randint(0, 4))]
        elif k == 'rex':
            d[k] = [rng.choice(STRS[-6:] + ['^[a-z]+$', '^\\d{4}\\-\\d{2}$', '^.*$']) for _ in range(rng.randint(1, 3))]
    if rng.random() < 0.5:
        items = list(d.items())
        rng.shuffle(items)      # hand-written files list the kinds in any order
        d = dict(items)
    # (a one-element list is a list: the loader reads bounds as dates only under the plain type 'date')
    if ftype == 'date' and 'type' in d and d['type'] not in ('date', ['date']) and any(k in d for k in ('min', 'max')):
        d['type'] = 'date'
    if d.get('type') != ['date'] and \
            any(is_date_text(d.get(k)) or (isinstance(d.get(k), dict) and is_date_text(d[k]['value'])) for k in ('min', 'max')):
        d['type'] = 'date'
    return d


def gen_set(rng):
    n = rng.randint(1, 4)
    fields = {}
    for name in rng.sample(NAMES, n):
        fields[name] = gen_field(rng)
    d = {'fields': fields}
    if rng.random() < 0.3:
        d['creation_metadata'] = {'local_time': '2024-01-02T03:04:05', 'creator': 'TDDA 2.2', 'host': 'h',
                                  'n_records': rng.choice([5, 0]), 'dataset': rng.choice(['données.csv', ''])}
        if rng.random() < 0.5:
            d['creation_metadata']['n_selected'] = rng.choice([0, 3])
    return d


def add_unknown(rng, d):
    d = copy.deepcopy(d)
    names = list(d['fields'])
    for _ in range(rng.randint(1, 3)):
        r = rng.random()
        if r < 0.4:
            d['fields'][rng.choice(names)]['#comment'] = rng.choice(['note', {'a': 1}, [1, 2], None])
        elif r < 0.7:
            d['fields'][rng.choice(names)]['made_up_kind'] = rng.choice([1, 'x', [1], {'value': 2}])
        elif r < 0.85:
            d['#top'] = 'x'
            d['other_top_level'] = {'k': [1, 2]}
        else:
            d['fields']['#only_comments'] = {'#c': 1}
    return d


def jv(v):
    """dictionary value -> driver JSON"""
    if isinstance(v, dict):
        return {'kw': [[k, atom(x)] for k, x in v.items()]}
    if isinstance(v, (list, tuple)):
        return [atom(x) for x in v]
    return atom(v)


def atom(x):
    if isinstance(x, bool) or x is None or isinstance(x, (int, str)):
        return x
    if isinstance(x, float):
        return {'f': repr(x)}
    if isinstance(x, dt.datetime):
        return dt_json(x)
    raise ValueError(x)


def dt_json(x):
    d = {'dt': [x.year, x.month, x.day, x.hour, x.minute, x.second, x.microsecond]}
    if x.tzinfo is not None:
        secs = x.utcoffset().total_seconds()
        if secs != int(secs):
            raise ValueError('offset with a fraction of a second: outside the model')
        d['off'] = int(secs)              # (in seconds: local mean times have offsets that are no whole minutes)
    return d


def jv_obj(v, from_dict=False):
    if isinstance(v, dict):
        return {'kw': [[k, atom(x)] for k, x in v.items()]}
    if isinstance(v, (list, tuple)):
        return [atom(x) for x in v]
    return atom(v)


def v0_order(fr, case, d):
    """the fields of the verification against the dictionary as written by hand, in the order the result holds them"""
    with quiet(), contextlib.redirect_stdout(io.StringIO()):
        v0 = verify_df(cx.to_df(fr), copy.deepcopy(case['set']), repair=False)
    return list(v0.fields.items())


def load_dict(d):
    cs = DatasetConstraints()
    with quiet():
        cs.initialize_from_dict(copy.deepcopy(d))
    return cs


def canon_fields(cs):
    """constraint set as comparable data: field -> kind -> (repr of value, precision)"""
    out = {}
    for name, fc in cs.fields.items():
        out[name] = {k: (repr(_instant(c.value)), getattr(c, 'precision', None)) for k, c in fc.constraints.items()}
    return out


def _instant(v):
    """a datetime.date bound and the midnight datetime it is read back as are the same value"""
    if isinstance(v, dt.date) and not isinstance(v, dt.datetime):
        return dt.datetime(v.year, v.month, v.day)
    if isinstance(v, dt.datetime) and v.tzinfo is not None:
        # an aware bound is its civil fields and its UTC offset (a zone object and the fixed offset it is read back with
        # are the same value)
        return ('aware', v.replace(tzinfo=None), v.utcoffset())
    return v


class C09(core.Prop):
    pid = 'C09'
    lean_modules = ['TddaVerif.Props.C09']
    theorems = ['TddaVerif.Props.C09.' + t for t in ['getDate_strDatetime', 'load_dump', 'dump_load_dump', 'same_constraints',
        'unknown_ignored', 'hash_key_silent', 'stripLines_no_trailing_ws', 'stripLines_id', 'stripLines_lines',
        'metadata_keys_nodup', 'meta_roundtrip', 'falsy_value_kept', 'meta_unknown_or_null_ignored', 'tie_meta_guards']]
    quick_n = 900
    thorough_n = 20000
    rule = ('cases: constraint sets in the documented dictionary format: 1..4 fields with unicode / quote / backslash / '
            'line-separator names, every kind, null values, precision-qualified and date-valued bounds (date only, '
            'seconds, fractions, T and / separators), 17-digit floats, big ints, expressions with escapes, optional '
            'creation metadata; plus sets discovered from generated frames; each goes through 1..3 write/load cycles, '
            'the three entry points (path, dict, re-serialised object), with unknown kinds / # keys / top-level keys '
            'added, and is verified against a generated frame before and after. non-trivial = >= 2 constraints; '
            'distinct by content')
    trusted_base = [
        'the translator harness/translate.py (METADATA_KEYS and the guards of the two metadata loops of base.py) that regenerates Generated/Meta.lean',
        'date bounds carrying a UTC offset are modelled for offsets of whole seconds (the RTZ layout of get_date, +HH:MM / -HH:MM and '
        '+HH:MM:SS as str() writes them); an offset with a fraction of a second is not matched by RTZ and stays text in code and model',
        'the json library (json.dumps / json.loads) is not modelled: its contract loads(dumps(x)) = x and the layout of '
        'dumps(indent=4) (one structural newline per line, no trailing blanks, strings quoted) are assumed and exercised',
    ]

    def revive(self, case):
        return cx.revive(case)

    def translate(self):
        import translate
        return translate.regenerate(['Meta'])

    def corpus(self):
        return [
            {'set': {'fields': {'d': {'type': 'date', 'min': None, 'max': '2020-01-02'}}}},
            {'set': {'fields': {'x y': {'type': 'string', 'allowed_values': ['n\u0085l', 'p q']}}}},
            {'set': {'fields': {'d': {'type': 'date', 'min': {'value': '2020-01-02 03:04:05', 'precision': 'closed'}}}}},
            {'set': {'fields': {'r': {'type': 'real', 'min': 0.1, 'max': 1.7976931348623157e308}}}},
            {'set': {'fields': {'s': {'type': 'string', 'rex': ['^"$', "^'$", '^\\d+\\\\$']}}}},
        ]

    def gen_case(self, rng, i):
        if rng.random() < 0.25:
            fr = cx.gen_frame(rng, fams=[f for f in cx.FAMILIES if f not in ('str',) + cx.OPT_IN])
            return {'discover': fr, 'rex': rng.random() < 0.4}
        return {'set': gen_set(rng), 'cycles': rng.randint(1, 3), 'unknown_seed': rng.randrange(10 ** 6)}

    def nontrivial_key(self, case):
        if 'set' in case:
            n = sum(len(f) for f in case['set']['fields'].values())
            for f in case['set']['fields'].values():
                for k in f:
                    self.count('kind_' + k)
            return json.dumps(case, sort_keys=True, default=str) if n >= 2 else None
        self.count('discovered')
        return json.dumps(case, sort_keys=True, default=str)

    # ---------------- correspondence -----------------------------------
    def model_ops(self, case):
        if 'set' not in case:
            return []
        ops = [{'op': 'c09.strip_lines', 's': s} for s in self._texts(case)]
        fields = [[name, [[k, jv(v)] for k, v in f.items()]] for name, f in case['set']['fields'].items()]
        ops.append({'op': 'c09.from_dict', 'fields': fields})
        ops.append({'op': 'c09.to_dict', 'fields': self._objects_json(case)})
        for s_ in self._date_strings(case):
            ops.append({'op': 'c09.get_date', 's': s_})
        ops.append({'op': 'c09.meta', 'md': [[k, None if v is None else json.dumps(v)] for k, v in self._md(case)]})
        return ops

    def _md(self, case):
        """the creation metadata of the case as (key, value) pairs, with some more entries derived from the case: an
        unknown key, null values, values that are false to Python's `if`"""
        md = list((case['set'].get('creation_metadata') or {}).items())
        n = len(json.dumps(case['set'], sort_keys=True, default=str))
        extra = [('rdbms', None), ('no_such_key', 'x'), ('n_selected', 0), ('source', ''), ('as_at', False), ('user', 'u'),
                 ('n_records', 0.0), ('tddafile', None)]
        have = {k for k, _ in md}
        for i_ in range(n % 4):
            k_, v_ = extra[(n + 3 * i_) % len(extra)]
            if k_ not in have:
                md.append((k_, v_))
                have.add(k_)
        return md

    def _date_strings(self, case):
        import random
        rng = random.Random('d' + json.dumps(case, sort_keys=True, default=str))
        base = rng.choice(DATES + [d_ + o_ for d_ in DATES[1:4] + ['2020-01-02', '2021-02-30 10:00:00', '2020-01-02 03:04:05\n']
                                   for o_ in ('+00:00', '-03:30', '-00:30', '+05:45', '+24:00', '-23:59', '+1:00', '+01:0', '+0100',
                                              ' +01:00', '+01:00:00', 'Z', '+01:00\n', '-00:00', '+05:21:10', '-03:30:52', '+05:21:10\n',
                                              '+05:21:1', '-00:00:30', '+24:00:00', '+23:59:59')] + ['2021-02-30', '2020-13-01', '2020-1-2', '2020-01-02 3:04:05', '2020-01-02 03:04:05.5',
                                   '2020-01-02 03:04', '20200102', '2020-01-02x', '2020-01-02\n', '0000-01-01',
                                   '2020-01-02 24:00:00', '2020-01-02 03:04:05.1234567', 'abc', '',
                                   '2020-01-02 03:04:05.12345678901', '2020-01-02 03:04:05.2147483648+01:00', '2020-01-02 03:04:05.999999',
                                   '99999999999-01-02', '2020-01-02 03:04:05.0000001'])
        out = [base]
        if base and rng.random() < 0.5:
            i = rng.randrange(len(base))
            out.append(base[:i] + rng.choice('0123456789-/ T:.x+\n') + base[i + 1:])
        return out

    def _objects(self, case):
        """constraint objects built directly with the constructors (in-memory form, datetimes as objects)"""
        from tdda.constraints import base as B
        import random
        rng = random.Random('o' + json.dumps(case, sort_keys=True, default=str))
        out = []
        for name, f in case['set']['fields'].items():
            cons = []
            for k, v in f.items():
                cls = B.FIELD_CONSTRAINTS_MAP[k]
                try:
                    if isinstance(v, dict):
                        val = v['value']
                        if f.get('type') == 'date' and isinstance(val, str):
                            val = B.get_date(val)
                        cons.append(cls(val, precision=v['precision']))
                    else:
                        val = v
                        if f.get('type') == 'date' and k in ('min', 'max') and isinstance(val, str):
                            val = B.get_date(val)
                        cons.append(cls(val))
                except Exception:
                    continue
            rng.shuffle(cons)
            out.append((name, cons))
        return out

    def _objects_json(self, case):
        out = []
        for name, cons in self._objects(case):
            out.append([name, [[c.kind, jv_obj(c.value), getattr(c, 'precision', None)] for c in cons]])
        return out

    def _texts(self, case):
        import random
        rng = random.Random(json.dumps(case, sort_keys=True, default=str))
        out = []
        for _ in range(2):
            n = rng.randint(0, 5)
            out.append(''.join(rng.choice(['a', ' ', '\t', '\n', '\n', '\r', '\u2028', '\x0c', 'b', '"', '  \n', '\u00a0']) for _ in range(n * 3)))
        return out

    def impl_outputs(self, case):
        from tdda.constraints import base as B
        out = [B.strip_lines(s) for s in self._texts(case)]
        # from_dict
        try:
            cs = DatasetConstraints()
            err = io.StringIO()
            with contextlib.redirect_stderr(err):
                cs.initialize_from_dict(copy.deepcopy({'fields': case['set']['fields']}))
            fields = [[name, [[c.kind, jv_obj(c.value), getattr(c, 'precision', None)] for c in fc.constraints.values()]]
                      for name, fc in cs.fields.items()]
            warnings = []
            for line in err.getvalue().split('\n'):
                if line.startswith('Constraint kind '):
                    rest = line[len('Constraint kind '):]
                    kind, _, tail = rest.partition(' for field ')
                    warnings.append([tail[:-len(' unknown: ignored.')], kind])
            out.append({'fields': fields, 'warnings': warnings})
        except Exception as e:
            out.append({'exc': type(e).__name__})
        # to_dict
        objs = self._objects(case)
        cs2 = DatasetConstraints([B.FieldConstraints(name, cons) for name, cons in objs])
        td = cs2.to_dict()['fields']
        out.append([[name, [[k, jv_obj(v, from_dict=True)] for k, v in f.items()]] for name, f in td.items()])
        for s_ in self._date_strings(case):
            with quiet(), contextlib.redirect_stdout(io.StringIO()):
                try:
                    r = B.get_date(s_)
                except Exception as e:   # noqa  (the model has no such outcome: a disagreement, then the oracle's business)
                    out.append({'exc': type(e).__name__})
                    continue
            if isinstance(r, dt.datetime):
                out.append(dt_json(r))
            else:
                import re as _re
                mz = _re.match(B.RTZ, s_)
                body = mz.group(1) if mz else s_
                matched = any(_re.match(rx, body) for rx in ((B.RDT, B.RDTM) if mz else (B.RD, B.RDT, B.RDTM)))
                out.append('invalid' if matched else 'not-date')
        try:
            csm = DatasetConstraints()
            with quiet(), contextlib.redirect_stderr(io.StringIO()):
                csm.initialize_from_dict({'fields': {}, 'creation_metadata': dict(self._md(case))})
            out.append([[k, json.dumps(v)] for k, v in csm.get_metadata().items()])
        except Exception as e:   # noqa
            out.append({'exc': type(e).__name__})
        return out

    def canon_model(self, case, outs):
        res = []
        for o in outs:
            if 'ok' not in o:
                res.append({'exc': o.get('exc')})
            else:
                res.append(o['ok'])
        return res

    # ------------------------------------------------------------------
    def oracle(self, case):
        F = []
        fail = lambda clause, detail, key=None: F.append(core.Failure(clause, case, detail, key or clause))
        # every case of a run writes to the same paths (constraint files regenerated in place, as a pipeline does)
        if getattr(self, '_wdir', None) is None:
            self._wdir = tempfile.mkdtemp(prefix='c09_')
            import atexit
            atexit.register(lambda p_=self._wdir: shutil.rmtree(p_, ignore_errors=True))
        d = self._wdir
        for fn_ in os.listdir(d):
            os.remove(os.path.join(d, fn_))
        try:
            if 'discover' in case:
                df = cx.to_df(case['discover'])
                try:
                    with quiet():
                        cs0 = discover_df(df, inc_rex=case['rex'])
                except Exception:
                    return F
                if cs0 is None:
                    return F
                cs0.clear_metadata()
                # (the counts stay: an empty dataset is written with n_records 0)
                for k in ('local_time', 'utc_time', 'host', 'user', 'creator', 'source', 'dataset', 'as_at'):
                    setattr(cs0, k, None)
                frame_for_verdicts = case['discover']
                cycles = 2
            else:
                try:
                    cs0 = load_dict(case['set'])
                except Exception as e:
                    fail('load-raises', '%s: %s' % (type(e).__name__, str(e)[:150]), 'load-raises:' + type(e).__name__)
                    return F
                frame_for_verdicts = None
                cycles = case.get('cycles', 1)
                # every kind the set names (a null value included: "no constraint of this kind in force") is there after loading
                for name_, f_ in case['set']['fields'].items():
                    have_ = set(cs0.fields[name_].constraints) if name_ in cs0.fields else set()
                    lost_ = sorted(k_ for k_ in f_ if k_ in STANDARD_FIELD_CONSTRAINTS and k_ not in have_)
                    if lost_:
                        fail('values-differ', 'field %r: kinds %r of the dictionary are not in the loaded constraints (values %r)'
                             % (name_, lost_, [f_[k_] for k_ in lost_]), 'values-differ:kinds-lost-on-load')
            try:
                text0 = cs0.to_json()
            except Exception as e:
                kinds = self._date_prec(case)
                fail('to_json-raises', '%s: %s' % (type(e).__name__, str(e)[:150]),
                     'to_json-raises:%s%s' % (type(e).__name__, ':date-bound-with-precision' if kinds else ''))
                return F
            # the text is valid UTF-8 JSON with no trailing whitespace
            try:
                text0.encode('utf-8')
            except UnicodeEncodeError as e:
                fail('not-utf8', repr(e)[:100])
            try:
                parsed = json.loads(text0)
            except Exception as e:
                fail('not-json', '%s' % str(e)[:100])
                return F
            if any(l != l.rstrip() for l in text0.split('\n')):
                fail('trailing-whitespace', 'a line ends in whitespace')
            if not text0.endswith('\n'):
                fail('no-final-newline', 'text does not end with a newline')
            # write / load cycles through a path
            text = text0
            prev = cs0
            for c in range(cycles):
                path = os.path.join(d, 'c%d.tdda' % c)
                with open(path, 'w', encoding='utf-8') as f:
                    f.write(text)
                try:
                    with quiet():
                        cs = DatasetConstraints(loadpath=path)
                    text2 = cs.to_json()
                except Exception as e:
                    fail('reload-raises', 'cycle %d: %s: %s' % (c, type(e).__name__, str(e)[:150]), 'reload-raises:' + type(e).__name__)
                    return F
                if text2 != text:
                    j1, j2 = json.loads(text), json.loads(text2)
                    if j1.get('fields') == j2.get('fields'):
                        md = j2.get('creation_metadata', {})
                        key = 'text-differs:creation_metadata' + (':tddafile-added' if 'tddafile' in md and 'tddafile' not in j1.get('creation_metadata', {}) else '')
                    else:
                        diffs = [(n, k) for n in j1['fields'] for k in j1['fields'][n]
                                 if j2['fields'].get(n, {}).get(k) != j1['fields'][n][k]]
                        key = 'text-differs:fields'
                        if diffs and all(k in ('min', 'max') for _, k in diffs):
                            key = 'text-differs:date-bound-rewritten'
                    fail('text-differs', 'cycle %d: text changes after reload' % c, key)
                if canon_fields(cs) != canon_fields(load_dict(json.loads(text))):
                    fail('path-vs-dict', 'loading by path and from the parsed dictionary give different constraints')
                if c == 0 and canon_fields(cs) != canon_fields(cs0):
                    # the constraints that come back from the file are the ones that were written: same kinds, same values
                    a, b = canon_fields(cs0), canon_fields(cs)
                    diffs = sorted({k for n in a for k in a[n] if b.get(n, {}).get(k) != a[n][k]} |
                                   {k for n in b for k in b[n] if k not in a.get(n, {})})
                    fail('values-differ', 'after write / load the constraints differ in %s: %r vs %r'
                         % (diffs, {n: {k: a[n].get(k) for k in diffs if k in a[n]} for n in a},
                            {n: {k: b.get(n, {}).get(k) for k in diffs} for n in b}), 'values-differ:' + ','.join(diffs))
                text = text2
                prev = cs
            # verdicts identical before / after a round trip
            frames = [frame_for_verdicts] if frame_for_verdicts else []
            if not frames and 'set' in case:
                import random
                rng = random.Random(case.get('unknown_seed', 0))
                fr = cx.gen_frame(rng, fams=c02.MODEL_FAMS, maxcols=len(case['set']['fields']))
                for col, name in zip(fr['cols'], case['set']['fields']):
                    col['name'] = name
                frames = [fr]
            for fr in frames:
                try:
                    with quiet(), contextlib.redirect_stdout(io.StringIO()):
                        v1 = verify_df(cx.to_df(fr), json.loads(text0), repair=False)
                        path = os.path.join(d, 'v.tdda')
                        with open(path, 'w', encoding='utf-8') as f:
                            f.write(text)
                        v2 = verify_df(cx.to_df(fr), path, repair=False)
                    a = {n: dict(x) for n, x in v1.fields.items()}
                    b = {n: dict(x) for n, x in v2.fields.items()}
                    if a != b:
                        fail('verdicts-differ', 'verdicts before and after the round trip differ')
                    # with the default repair of column types too: the dictionary and the file are the same constraints
                    # (fresh frames: repair rewrites the frame it is given)
                    with quiet(), contextlib.redirect_stdout(io.StringIO()):
                        r1 = verify_df(cx.to_df(fr), json.loads(text0))
                        r2 = verify_df(cx.to_df(fr), path)
                    if {n: dict(x) for n, x in r1.fields.items()} != {n: dict(x) for n, x in r2.fields.items()}:
                        fail('verdicts-differ', 'with repair of column types: the dictionary and the file give different verdicts',
                             'verdicts-differ:dict-vs-file:repair')
                    if 'set' in case:
                        # verdicts come in one order of kinds whichever way the constraints were given
                        if [(n, list(x)) for n, x in v0_order(fr, case, d)] != [(n, list(x)) for n, x in v2.fields.items()]:
                            fail('verdicts-differ', 'the kinds of the verdicts come in another order for the dictionary as written '
                                 'than for the re-serialised file', 'verdicts-differ:order')
                        # a type given as a tuple in an in-memory dictionary is the list the file holds
                        tup = copy.deepcopy(case['set'])
                        has_tuple = False
                        for f_ in tup['fields'].values():
                            if isinstance(f_.get('type'), list):
                                f_['type'] = tuple(f_['type'])
                                has_tuple = True
                        if has_tuple:
                            with quiet(), contextlib.redirect_stdout(io.StringIO()):
                                vt = verify_df(cx.to_df(fr), tup, repair=False)
                            if {n: dict(x) for n, x in vt.fields.items()} != b:
                                fail('verdicts-differ', 'a type given as a tuple in the in-memory dictionary and the list in the '
                                     'file give different verdicts', 'verdicts-differ:tuple-type')
                    if 'set' in case:
                        # the dictionary as written by hand (any key order) against the re-serialised file
                        with quiet(), contextlib.redirect_stdout(io.StringIO()):
                            v0 = verify_df(cx.to_df(fr), copy.deepcopy(case['set']), repair=False)
                        c = {n: dict(x) for n, x in v0.fields.items()}
                        if c != b:
                            fail('verdicts-differ', 'the in-memory dictionary and the re-serialised file give different verdicts',
                                 'verdicts-differ:dict-vs-file')
                except Exception:
                    pass   # verification errors are C01/C02's business
            # unknown kinds and # keys are ignored
            if 'set' in case:
                import random
                rng = random.Random(case.get('unknown_seed', 0))
                d2 = add_unknown(rng, case['set'])
                try:
                    cs_u = load_dict(d2)
                    if canon_fields(cs_u) != canon_fields(cs0):
                        fail('unknown-not-inert', 'unknown kinds / # keys changed the constraints')
                    if cs_u.to_json() != text0:
                        fail('unknown-not-inert', 'unknown kinds / # keys changed the serialised text', 'unknown-not-inert:text')
                except Exception as e:
                    fail('unknown-raises', '%s: %s' % (type(e).__name__, str(e)[:150]), 'unknown-raises:' + type(e).__name__)
        finally:
            pass
        return F

    def _date_prec(self, case):
        if 'set' not in case:
            return False
        for f in case['set']['fields'].values():
            if f.get('type') == 'date':
                for k in ('min', 'max'):
                    if isinstance(f.get(k), dict):
                        return True
        return False


PROP = C09
