"""C18 - rexpy coverage figures equal true match counts and account for all examples."""
import re

import core
import gens

core.setup_repo_path()
from tdda.rexpy import rexpy  # noqa: E402

FLAGS = re.UNICODE | re.DOTALL
PAT_POOL = [r'^[a-z]+$', r'^\w+$', r'^.*$', r'a', r'^\d+$', r'^.{2}$', r'[0-9a-f]+', r'^[A-Z]',
            r'\d', r'^\s*\S+\s*$', r'^$', r'[a-z]{1,3}', r'^a', r'b$', r'^.+$', r'^[^a]*$',
            r'^\W+$', r'^(a|b)+$', r'.', r'^..?$']


def term(p):
    return '%s%s%s' % ('' if p.startswith('^') else '^', p, '' if p.endswith('$') else '$')


def matches(p, x):
    return re.match(re.compile(term(p), FLAGS), x) is not None


class C18(core.Prop):
    pid = 'C18'
    lean_modules = ['TddaVerif.Props.C18']
    theorems = [
        'TddaVerif.Props.C18.coverage_exact',
        'TddaVerif.Props.C18.coverage_dedup_exact',
        'TddaVerif.Props.C18.n_examples_exact',
        'TddaVerif.Props.C18.incr_terminates',
        'TddaVerif.Props.C18.incr_sum_exact',
        'TddaVerif.Props.C18.incr_nonincreasing',
        'TddaVerif.Props.C18.incr_fields_exact',
    ]
    quick_n = 1200
    thorough_n = 20000
    rule = ('cases: (a) direct calls of rex_coverage / rex_(full_)incremental_coverage with 1..6 overlapping '
            'patterns from a pool (some unterminated, some duplicated) on 0..10 distinct strings with freqs 1..4; '
            '(b) Extractor runs on generated example lists under option/Size settings, then the four coverage '
            'methods. non-trivial = at least 2 patterns and at least one example matched by 2 of them, or an '
            'extraction with >= 2 expressions; distinct by full case content')
    trusted_base = [
        'CPython re.match is the match relation (enters the model as the Boolean matrix computed by the harness with the real re)',
        'modelled: rex_coverage, terminate_patterns_and_sort, coverage_matrices, matrices2incremental_coverage, n_examples; not modelled: Extractor sampling (its effect on the figures is decided by the oracle)',
    ]

    # ------------------------------------------------------------------
    def corpus(self):
        return [
            {'kind': 'direct', 'pats': ['^a$', 'a', '^.*$'], 'strings': ['a', 'b', ''], 'freqs': [2, 1, 3]},
            {'kind': 'direct', 'pats': ['^a+$', '^[ab]+$', '^b+$'], 'strings': ['a', 'ab', 'b', 'c'], 'freqs': [1, 2, 2, 5]},
            {'kind': 'extract', 'examples': ['ab', 'ab', 'cd', '12', '1-2'], 'opts': {}, 'size': None, 'seed': None},
        ]

    def gen_case(self, rng, i):
        if rng.random() < 0.5:
            k = rng.randint(1, 6)
            pats = [rng.choice(PAT_POOL) for _ in range(k)]
            if rng.random() < 0.15 and pats:
                pats.append(rng.choice(pats))
            n = rng.randint(0, 10)
            strings = []
            while len(strings) < n:
                s = rng.choice([gens.rand_string(rng, 5, list('ab1 A-')), gens.structured_string(rng),
                                gens.rand_string(rng, 4)])
                if s not in strings:
                    strings.append(s)
            freqs = [rng.choice([1, 1, 1, 2, 3, 4]) for _ in strings]
            return {'kind': 'direct', 'pats': pats, 'strings': strings, 'freqs': freqs}
        ex = gens.example_list(rng, 12)
        if rng.random() < 0.2:
            # examples that are nothing but white space, empty strings, nulls (what the cleaning options are about)
            ex = list(ex) + [rng.choice(['   ', '\t', ' ', '  ', ' \t ', '', None]) for _ in range(rng.randint(1, 3))]
        if rng.random() < 0.15 and ex:
            # an example and the same text followed by a line break: two examples, and the expression of the first matches
            # both ('$' also matches before a final line break), so expressions overlap
            for s_ in rng.sample([e for e in ex if e], min(2, len([e for e in ex if e]))):
                ex = list(ex) + [s_ + '\n'] * rng.randint(1, 3)
        opts = {}
        if rng.random() < 0.3:
            opts['strip'] = True
        if rng.random() < (0.6 if opts.get('strip') else 0.2):
            opts['remove_empties'] = True
        if rng.random() < 0.3:
            opts['tag'] = True
        if rng.random() < 0.3:
            opts['variableLengthFrags'] = True
        if rng.random() < 0.2:
            opts['extra_letters'] = rng.choice(['_', '-', '_-', '.'])
        if rng.random() < 0.3:
            opts['dialect'] = rng.choice(['perl', 'portable', 'grep'])
        size = None
        if rng.random() < 0.3:
            size = {'do_all': rng.randint(1, 5), 'do_all_exceptions': rng.randint(1, 3),
                    'max_sampled_attempts': rng.randint(0, 2)}
        as_dict = rng.random() < 0.3
        return {'kind': 'extract', 'examples': ex, 'opts': opts, 'size': size,
                'seed': rng.choice([None, 1, 7]), 'as_dict': as_dict,
                # byte strings with an encoding, through the module-level extract(..., as_object=True)
                'as_bytes': rng.random() < 0.2}

    # ------------------------------------------------------------------
    def _extract(self, case):
        """Run the real Extractor; returns (x, supplied Counter-like lists)."""
        key = id(case)
        if getattr(self, '_xk', None) == key:
            return self._xv
        opts = dict(case['opts'])
        if case.get('size'):
            opts['size'] = rexpy.Size(**case['size'])
        ex = case['examples']
        if case.get('as_dict'):
            d = {}
            for s in ex:
                d[s] = d.get(s, 0) + 1
            if case.get('zero_key', len(ex) % 3 == 0) and 'zz-9' not in d:
                d['zz-9'] = 0          # (a Counter counted down to nothing: supplied zero times, not an example)
            arg = d
        else:
            arg = list(ex)
            # a list, or something that can be read once only (a generator, an iterator over a file's lines)
            one_shot = case.get('one_shot', len(ex) % 4 == 3 and not case.get('as_bytes'))
            if one_shot:
                arg = (s for s in list(ex))
        import random
        st = random.getstate()
        try:
            enc_ok = case.get('as_bytes') and all(s is None or isinstance(s, str) for s in ex)
            if enc_ok:
                try:
                    if isinstance(arg, dict):
                        barg = {(k.encode('utf-8') if k is not None else None): v for k, v in arg.items()}
                    else:
                        barg = [(s.encode('utf-8') if s is not None else None) for s in arg]
                except UnicodeEncodeError:
                    enc_ok = False
            if enc_ok:
                x = rexpy.extract(barg, seed=case.get('seed'), as_object=True, encoding='utf-8', **opts)
            else:
                x = rexpy.Extractor(arg, seed=case.get('seed'), **opts)
        finally:
            random.setstate(st)
        self._xk, self._xv = key, x
        return x

    def _inputs(self, case):
        """(pats, strings, freqs) as seen by the coverage functions."""
        if case['kind'] == 'direct':
            return case['pats'], case['strings'], case['freqs'], None
        x = self._extract(case)
        pats = list(x.results.rex) if x.results else []
        ex = x.supplied_examples() if hasattr(x, 'supplied_examples') else x.examples   # what the figures are computed from
        return pats, list(ex.strings), list(ex.freqs), x

    def model_ops(self, case):
        try:
            pats, strings, freqs, x = self._inputs(case)
        except Exception:
            return []   # extraction itself raised: C03/C13 territory, not coverage
        if case['kind'] == 'extract' and not pats:
            return [{'op': 'c18.nexamples', 'freqs': freqs, 'dedup': d} for d in (False, True)]
        ops = [{'op': 'c18.tsort', 'pats': pats}]
        ms = [[matches(p, s) for s in strings] for p in pats]
        for d in (False, True):
            ops.append({'op': 'c18.coverage', 'ms': ms, 'freqs': freqs, 'dedup': d})
        z = sorted(zip([term(p) for p in pats], range(len(pats))))
        sp = [a for a, _ in z]
        idx = [b for _, b in z]
        bs = [[matches(p, s) for p in sp] for s in strings]
        for sd in (False, True):
            ops.append({'op': 'c18.full', 'pats': sp, 'idx': idx, 'bs': bs, 'freqs': freqs, 'sd': sd})
            ops.append({'op': 'c18.incr', 'pats': sp, 'idx': idx, 'bs': bs, 'freqs': freqs, 'sd': sd})
        if case['kind'] == 'extract':
            ops += [{'op': 'c18.nexamples', 'freqs': freqs, 'dedup': d} for d in (False, True)]
        return ops

    def impl_outputs(self, case):
        pats, strings, freqs, x = self._inputs(case)
        if case['kind'] == 'extract' and not pats:
            return [x.n_examples(d) for d in (False, True)]
        out = []
        sp, idx = rexpy.terminate_patterns_and_sort(pats)
        out.append([list(sp), list(idx)])
        ex = None if x else rexpy.Examples(list(strings), list(freqs))
        for d in (False, True):
            out.append(list(x.coverage(dedup=d)) if x else list(rexpy.rex_coverage(pats, ex, d)))
        for sd in (False, True):
            full = (x.full_incremental_coverage(dedup=sd) if x
                    else rexpy.rex_full_incremental_coverage(pats, ex, sort_on_deduped=sd))
            out.append([[k, [v.n, v.n_uniq, v.incr, v.incr_uniq, v.index]] for k, v in full.items()])
            inc = (x.incremental_coverage(dedup=sd) if x
                   else rexpy.rex_incremental_coverage(pats, ex, sort_on_deduped=sd))
            out.append([[k, v] for k, v in inc.items()])
        if case['kind'] == 'extract':
            out += [x.n_examples(d) for d in (False, True)]
        return out

    def canon_model(self, case, outs):
        return [o['ok'] if 'ok' in o else {'exc': o.get('exc')} for o in outs]

    # ------------------------------------------------------------------
    def nontrivial_key(self, case):
        import json
        if case['kind'] == 'direct':
            pats, strings = case['pats'], case['strings']
            if len(set(pats)) >= 2 and any(sum(matches(p, s) for p in set(pats)) >= 2 for s in strings):
                self.count('direct_overlapping')
                return json.dumps(case, sort_keys=True)
            self.count('direct_trivial')
            return None
        try:
            x = self._extract(case)
        except Exception:
            self.count('extract_raised')
            return None
        if x.results and len(x.results.rex) >= 2:
            self.count('extract_multi')
            return json.dumps(case, sort_keys=True)
        self.count('extract_single_or_none')
        return None

    # ------------------------------------------------------------------
    def oracle(self, case):
        F = []
        fail = lambda clause, detail, key=None: F.append(core.Failure(clause, case, detail, key or clause))
        if case['kind'] == 'direct':
            pats, strings, freqs = case['pats'], case['strings'], case['freqs']
            ex = lambda: rexpy.Examples(list(strings), list(freqs))
            get_cov = lambda d: rexpy.rex_coverage(pats, ex(), d)
            get_full = lambda sd: rexpy.rex_full_incremental_coverage(pats, ex(), sort_on_deduped=sd)
            get_incr = lambda sd: rexpy.rex_incremental_coverage(pats, ex(), sort_on_deduped=sd)
            sup_strings, sup_freqs = strings, freqs
            sampled = False
            x = None
        else:
            try:
                x = self._extract(case)
            except Exception:
                return []   # not this property's business
            if not x.results:
                pats = []
            else:
                pats = list(x.results.rex)
            # the supplied examples after the explicit discards (nulls, empties when removed, stripping)
            sup = {}
            for s in case['examples']:
                if s is None:
                    continue
                t = s.strip() if case['opts'].get('strip') else s
                if case['opts'].get('remove_empties') and len(t) == 0:
                    continue
                sup[t] = sup.get(t, 0) + 1
            sup_strings, sup_freqs = list(sup), list(sup.values())
            sampled = bool(case.get('size')) and len(sup_strings) > case['size']['do_all']
            get_cov = lambda d: x.coverage(dedup=d)
            get_full = lambda sd: x.full_incremental_coverage(dedup=sd)
            get_incr = lambda sd: x.incremental_coverage(dedup=sd)
            # The figures must describe the examples supplied (not the sample extraction worked from): every clause
            # below is evaluated against them.  When they do not, the mismatch is classified by its cause first.
            ex = x.supplied_examples() if hasattr(x, 'supplied_examples') else x.examples
            ws, wf = list(ex.strings), list(ex.freqs)
            wd = {}
            for a, b in zip(ws, wf):
                wd[a] = wd.get(a, 0) + b
            if len(ws) != len(set(ws)):
                fail('working-set', 'unmatched examples were re-added: working set %r' % (list(zip(ws, wf)),),
                     'working-set:unmatched-examples-readded')
            elif wd != sup:
                fail('working-set', 'figures describe a set of %d (of %d supplied) distinct examples'
                     % (len(ws), len(sup)),
                     'working-set:sample-not-supplied' if sampled else 'working-set:differs')
            for d in (False, True):
                want = len(sup_strings) if d else sum(sup_freqs)
                got = x.n_examples(dedup=d)
                if got != want:
                    fail('n_examples', 'dedup=%s reported %s, supplied %s' % (d, got, want))
            if not pats:
                return F
        kq = ''
        M = {p: [matches(p, s) for s in sup_strings] for p in set(pats)}
        for d in (False, True):
            try:
                cov = list(get_cov(d))
            except Exception as e:
                fail('coverage-raises', repr(e))
                continue
            want = [sum((1 if d else f) for m, f in zip(M[p], sup_freqs) if m) for p in pats]
            if cov != want:
                fail('coverage', 'dedup=%s got %s want %s' % (d, cov, want), kq + 'coverage')
        for sd in (False, True):
            try:
                full = get_full(sd)
                inc = get_incr(sd)
            except Exception as e:
                fail('incremental-raises', repr(e))
                continue
            tp = {term(p): p for p in pats}
            explained = [False] * len(sup_strings)
            prev = None
            tot = tot_u = 0
            for k, c in full.items():
                if k not in tp:
                    fail('incr-key', 'key %r is not a terminated input pattern' % k)
                    continue
                m = M[tp[k]]
                n = sum(f for mm, f in zip(m, sup_freqs) if mm)
                nu = sum(1 for mm in m if mm)
                new = [mm and not e for mm, e in zip(m, explained)]
                inew = sum(f for mm, f in zip(new, sup_freqs) if mm)
                inew_u = sum(1 for mm in new if mm)
                if (c.n, c.n_uniq) != (n, nu):
                    fail('incr-n', '%r: n,n_uniq=%s want %s' % (k, (c.n, c.n_uniq), (n, nu)), kq + 'incr-n')
                if (c.incr, c.incr_uniq) != (inew, inew_u):
                    fail('incr-credit', '%r: incr,incr_uniq=%s, newly explained %s' % (k, (c.incr, c.incr_uniq), (inew, inew_u)), kq + 'incr-credit')
                if term(pats[c.index]) != k:
                    fail('incr-index', '%r index %s' % (k, c.index))
                key = c.incr_uniq if sd else c.incr
                if prev is not None and key > prev:
                    fail('incr-order', 'not non-increasing at %r' % k)
                prev = key
                if inc.get(k) != key:
                    fail('incr-vs-full', 'incremental_coverage[%r]=%s full says %s' % (k, inc.get(k), key))
                explained = [e or mm for e, mm in zip(explained, m)]
                tot += c.incr
                tot_u += c.incr_uniq
            if list(inc.keys()) != list(full.keys()):
                fail('incr-vs-full', 'different key order')
            # patterns left out explain nothing new
            for p in pats:
                if term(p) not in full:
                    if any(mm and not e for mm, e in zip(M[p], explained)):
                        fail('incr-dropped', '%r dropped but explains unexplained examples' % p)
            any_match = [any(M[p][i] for p in pats) for i in range(len(sup_strings))]
            want_tot = sum(f for a, f in zip(any_match, sup_freqs) if a)
            want_tot_u = sum(1 for a in any_match if a)
            if (tot, tot_u) != (want_tot, want_tot_u):
                fail('incr-sum', 'sums %s, examples matched by some expression %s' % ((tot, tot_u), (want_tot, want_tot_u)), kq + 'incr-sum')
            if case['kind'] == 'extract' and (tot, tot_u) != (sum(sup_freqs), len(sup_strings)):
                # "its counts sum to the total number of examples": needs C03 too; only charged here
                # when every supplied example IS matched by some returned expression
                if all(any_match):
                    fail('incr-total', 'sums %s, supplied %s' % ((tot, tot_u), (sum(sup_freqs), len(sup_strings))), kq + 'incr-total')
        return F


PROP = C18
