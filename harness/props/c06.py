"""C06 - detection flags exactly the violating records and agrees with verification."""
import contextlib
import datetime as dt
import io
import json
import math
import os
import re
import shutil
import tempfile
from fractions import Fraction

import core
import cxcommon as cx

core.setup_repo_path()
import numpy as np  # noqa: E402
import pandas as pd  # noqa: E402
from tdda.constraints import verify_df, detect_df  # noqa: E402
from tdda.constraints.base import STANDARD_FIELD_CONSTRAINTS, CONSTRAINT_SUFFIX_MAP  # noqa: E402
from props import c02  # noqa: E402

ORDER = list(STANDARD_FIELD_CONSTRAINTS)


def quiet():
    return contextlib.redirect_stderr(io.StringIO())


def preferred(ks):
    return sorted(ks, key=lambda k: ORDER.index(k['kind']))


def cell_ok(col, k, cell, eps, allcells):
    """per-record reading of the documented meaning; None = null flag"""
    kind, v = k['kind'], k['value']
    ftype = cx.col_ftype(col)
    isnull = cell is None or (isinstance(cell, float) and math.isnan(cell))
    if kind == 'type':
        return False
    if kind == 'max_nulls':
        return not isnull
    if kind == 'no_duplicates':
        if isnull:
            return True
        return sum(1 for c in allcells if c is not None and not (isinstance(c, float) and math.isnan(c)) and c == cell) <= 1
    # a bound / class of the wrong type for the field is a type failure: every record is flagged
    if kind in ('min', 'max') and c02.coarse(v) != {'bool': 'number', 'int': 'number', 'real': 'number',
                                                     'string': 'string', 'date': 'date'}.get(ftype):
        return False
    if kind in ('min_length', 'max_length', 'rex') and ftype != 'string':
        return False
    if kind == 'sign' and ftype not in ('bool', 'int', 'real'):
        return False
    if kind == 'sign' and v == 'null':
        return '?'      # the documentation does not say which records violate sign 'null'
    if isnull:
        return None
    one = dict(col, cells=[cell])
    return c02.sat(one, True, k, eps, False)


class C06(core.Prop):
    pid = 'C06'
    lean_modules = ['TddaVerif.Props.C06']
    theorems = ['TddaVerif.Props.C06.' + t for t in ['detect_verdicts_eq_verify', 'flags_length', 'flag_false_iff_violates',
        'type_failure_flags_all', 'wrong_typed_bound_flags_all', 'maxNulls_flags_nulls', 'noDuplicates_flags',
        'nFailures_exact', 'counts_partition', 'written_rows_are_positions', 'written_failing', 'failing_written', 'written_sorted']]
    quick_n = 300
    thorough_n = 12000
    rule = ('cases: frames of 1..3 columns x 1..10 rows with a boundary-directed constraint set (as C02, biased so '
            'that at least one constraint is violated) x options {per_constraint, write_all, output_fields '
            '(None / [] / some), index, in_place, boolean_ints} x output {none, .csv, .parquet} x {output file absent, '
            'stale file from an earlier run present}. non-trivial = at least one violated constraint; '
            'distinct by content')
    trusted_base = [
        'pandas column operations and the CSV / parquet writers are not modelled; per-record flags and failure counts '
        'are tied by the cx.detect op, file effects are decided by the oracle',
    ]

    def revive(self, case):
        return cx.revive(case)

    def corpus(self):
        return []

    def gen_band_case(self, rng):
        """one real column around the edges of the fuzzy band of a bound b (positive or negative), with the
        matching epsilon: records on the bound, inside the band, on its edge and outside it"""
        b = rng.choice([-128.0, -64.0, -8.0, 8.0, 64.0, 128.0])
        e = rng.choice([Fraction(1, 2), Fraction(1, 4), Fraction(1, 8)])
        ef = float(e)
        kind = rng.choice(['min', 'max'])
        lo, hi = sorted([b * (1 - ef), b * (1 + ef)])
        pts = [b, lo, hi, lo - 0.5, hi + 0.5, lo + 0.5, hi - 0.5, b + 0.5, b - 0.5, None]
        n = rng.randint(3, 8)
        cells = [rng.choice(pts) for _ in range(n)]
        cells[0] = (lo - 0.5) if kind == 'min' else (hi + 0.5)          # a genuine violation
        cells[1] = (b - 0.5) if kind == 'min' else (b + 0.5)            # strictly inside the band
        fam = rng.choice(['float64', 'Float64'])
        name = 'x0'
        ks = [{'kind': kind, 'value': b, 'precision': rng.choice(['fuzzy', None])}]
        if rng.random() < 0.3:
            ks.append({'kind': 'max_nulls', 'value': 0})
        return {'frame': {'nrows': n, 'cols': [{'name': name, 'fam': fam, 'cells': cells}]},
                'constraints': {name: preferred(ks)}, 'eps': [e.numerator, e.denominator],
                'opts': {'per_constraint': True, 'write_all': rng.random() < 0.5, 'output_fields': None,
                         'index': False, 'in_place': False, 'boolean_ints': False},
                'out': None, 'stale': False}

    def gen_case(self, rng, i):
        if rng.random() < 0.08:
            # values with line breaks under expressions whose dot has to cross them (some values violate)
            vals = [rng.choice(['a\nb', 'line\nbreak', 'abc\n', 'xk', 'two\nlines k', 'k', '\n', 'ab', 'A\nB', None]) for _ in range(rng.randint(2, 7))]
            fam = rng.choice(['object-str', 'object-str', 'string', 'category'])
            fr = {'nrows': len(vals), 'cols': [{'name': 'txt', 'fam': fam, 'cells': vals}]}
            cons = {'txt': [{'kind': 'rex', 'value': [rng.choice([r'^.*$', r'^.+$', r'^[a-z]+.[a-z]+$', r'^.*k$', r'^[a-z]+$', r'^.$'])
                                                       for _ in range(rng.randint(1, 2))]}]}
            if rng.random() < 0.4:
                cons['txt'].insert(0, {'kind': 'type', 'value': 'string'})
            opts = {'per_constraint': rng.random() < 0.6, 'write_all': rng.random() < 0.4, 'output_fields': None,
                    'index': False, 'in_place': False, 'boolean_ints': False}
            return {'frame': fr, 'constraints': cons, 'eps': [0, 1], 'opts': opts, 'out': rng.choice([None, 'csv']), 'stale': False,
                    'index_kind': 'default'}
        if rng.random() < 0.2:
            return self.gen_band_case(rng)
        fr = cx.gen_frame(rng, fams=c02.MODEL_FAMS)
        if fr['nrows'] == 0:
            fr = cx.gen_frame(rng, fams=c02.MODEL_FAMS)
        for c in fr['cols']:
            c['cells'] = [None if x is None else
                          (x % (2 ** 40) if isinstance(x, int) and not isinstance(x, bool) and abs(x) > 2 ** 40 else
                           (1.0 if isinstance(x, float) and math.isinf(x) else x)) for x in c['cells']]
        cons = {c['name']: preferred(c02.gen_constraints(rng, c)) for c in fr['cols']}
        clean = rng.random() < 0.08
        if clean:
            # a run in which every constraint holds (an output file left by an earlier run must not survive it)
            cons = {c['name']: [{'kind': 'max_nulls', 'value': fr['nrows']}] for c in fr['cols']}
        if not clean and rng.random() < 0.1:
            # constraints on a field the data lacks: they fail in detection as they do in verification
            cons['missing_field'] = [{'kind': 'type', 'value': 'int'}, {'kind': 'max_nulls', 'value': 0}][:rng.randint(1, 2)]
        e = rng.choice(c02.EPS)
        opts = {'per_constraint': rng.random() < 0.6, 'write_all': rng.random() < 0.4,
                'output_fields': rng.choice([None, None, [], [fr['cols'][0]['name']]]),
                'index': rng.random() < 0.3, 'in_place': rng.random() < 0.2, 'boolean_ints': rng.random() < 0.2}
        return {'frame': fr, 'constraints': cons, 'eps': [e.numerator, e.denominator],
                'opts': opts, 'out': rng.choice(['csv', 'parquet']) if clean else rng.choice([None, None, 'csv', 'parquet']),
                'stale': True if clean else rng.random() < 0.5,
                'index_kind': rng.choice(['default', 'default', 'permuted', 'labels', 'offset'])}

    def _indexed(self, df, case):
        """the frame as a caller may hold it: after a sort (permuted integer index), with row labels, after a filter"""
        kind = case.get('index_kind', 'default')
        n = len(df)
        if kind == 'permuted' and n:
            import random
            idx = list(range(n))
            random.Random(n * 7 + 1).shuffle(idx)
            df.index = idx
        elif kind == 'labels' and n:
            df.index = ['r%d' % (n - i) for i in range(n)]
        elif kind == 'offset' and n:
            df.index = [10 + 3 * i for i in range(n)]
        return df

    # --- correspondence: one cx.detect op per column ------------------
    def _rex(self, case):
        rexes = []
        for ks in case['constraints'].values():
            for k in ks:
                if k['kind'] == 'rex' and k['value']:
                    for r in k['value']:
                        if r not in rexes:
                            rexes.append(r)
        strings = sorted({c for col in case['frame']['cols'] for c in col['cells'] if isinstance(c, str)})
        return rexes, strings

    def model_ops(self, case):
        ops = []
        try:
            rexes, strings = self._rex(case)
            ids = {r: i for i, r in enumerate(rexes)}
            cfg = {'eps': case['eps'], 'strict': False, 'rx': cx.rx_table(rexes, strings)}
            for col in case['frame']['cols']:
                mc = cx.model_col(col)
                if mc['ftype'] == 'other':
                    return []
                ks = [c02.model_constraint(k, ids) for k in case['constraints'][col['name']]]
                ops.append({'op': 'cx.detect', 'cfg': cfg, 'col': mc, 'constraints': ks})
        except ValueError:
            return []
        w = self._written(case)
        if w is not None:
            ops.append({'op': 'c06.written', 'nf': w['nf'], 'write_all': bool(case['opts']['write_all'])})
        return ops

    def _written(self, case):
        """the counts of failures per record (in-memory detection of all records) and the (RowNumber, n_failures) rows of the
        file the real code writes with a row-number column; None when nothing fails (no file is written then)"""
        key = json.dumps(case, sort_keys=True, default=str)
        if getattr(self, '_wk', None) == key:
            return self._wv
        self._wk, self._wv = key, None
        cons = c02.tdda_dict(case['constraints'])
        epsf = case['eps'][0] / case['eps'][1]
        d = tempfile.mkdtemp(prefix='c06w_')
        try:
            with quiet(), contextlib.redirect_stdout(io.StringIO()):
                v = detect_df(cx.to_df(case['frame']), cons, epsilon=epsf, repair=False, per_constraint=True,
                              output_fields=[], write_all=True)
            det = v.detected()
            if det is None or not any(int(x) > 0 for x in det['n_failures']):
                return None
            nf = [int(x) for x in det['n_failures']]
            out = os.path.join(d, 'w.csv')
            with quiet(), contextlib.redirect_stdout(io.StringIO()):
                detect_df(cx.to_df(case['frame']), cons, epsilon=epsf, repair=False, outpath=out, per_constraint=False,
                          output_fields=[], write_all=bool(case['opts']['write_all']), index=True, rownumber_is_index=False)
            rows = None
            if os.path.exists(out):
                got = pd.read_csv(out)
                rows = [[int(a), int(b)] for a, b in zip(got['RowNumber'], got['n_failures'])]
            self._wv = {'nf': nf, 'rows': rows}
        except Exception as e:   # noqa
            self._wv = None          # (an exception of the real code is the oracle's business)
        finally:
            shutil.rmtree(d, ignore_errors=True)
        return self._wv

    def _detect_col(self, case, col):
        df = cx.to_df({'cols': [col]})
        cons = c02.tdda_dict({col['name']: case['constraints'][col['name']]})
        eps = case['eps'][0] / case['eps'][1]
        with quiet(), contextlib.redirect_stdout(io.StringIO()):
            v = detect_df(df, cons, epsilon=eps, type_checking='sloppy', repair=False,
                          per_constraint=True, output_fields=[], write_all=True)
        return df, v

    def impl_outputs(self, case):
        out = []
        for col in case['frame']['cols']:
            try:
                df, v = self._detect_col(case, col)
            except Exception as e:
                out.append({'exc': type(e).__name__})
                continue
            name = col['name']
            ks = case['constraints'][name]
            verdicts = [bool(v.fields[name][k['kind']]) for k in ks]
            det = v.detected()
            n = len(df)
            if det is None:
                out.append({'verdicts': verdicts, 'flags': [], 'n_failures': [0] * n, 'n_failing': 0, 'n_passing': n})
                continue
            flags = []
            for k, ok in zip(ks, verdicts):
                if ok:
                    continue
                cname = '%s_%s_ok' % (name, CONSTRAINT_SUFFIX_MAP[k['kind']])
                if cname in det:
                    flags.append([None if pd.isnull(x) else bool(x) for x in det[cname]])
            out.append({'verdicts': verdicts, 'flags': flags, 'n_failures': [int(x) for x in det['n_failures']],
                        'n_failing': int(v.detection.n_failing_records), 'n_passing': int(v.detection.n_passing_records)})
        w = self._written(case)
        if w is not None:
            out.append(w['rows'])
        return out

    def canon_model(self, case, outs):
        res = []
        for o, col in zip(outs, case['frame']['cols']):
            if 'ok' not in o:
                res.append({'exc': o.get('exc')})
                continue
            res.append(o['ok'])
        # an implementation exception is the oracle's business
        impl = self.impl_outputs(case)
        res = [i if 'exc' in i else r for r, i in zip(res, impl)]
        if len(outs) > len(case['frame']['cols']):
            o = outs[-1]
            res.append(o['ok'] if 'ok' in o else {'exc': o.get('exc')})
        return res

    def nontrivial_key(self, case):
        for k, v in case['opts'].items():
            if v:
                self.count('opt_' + k)
        self.count('out_%s' % case['out'])
        return json.dumps(case, sort_keys=True, default=str)

    # --- oracle ---------------------------------------------------------
    def oracle(self, case):
        F = []
        fail = lambda clause, detail, key=None: F.append(core.Failure(clause, case, detail, key or clause))
        eps = Fraction(case['eps'][0], case['eps'][1])
        epsf = case['eps'][0] / case['eps'][1]
        # the file written with a row-number column: each record under its position in the input (from 1)
        try:
            w = self._written(case)
        except Exception:   # noqa
            w = None
        if w is not None and w['rows'] is not None:
            want_rows = [[i_ + 1, k_] for i_, k_ in enumerate(w['nf']) if case['opts']['write_all'] or k_ > 0]
            if w['rows'] != want_rows:
                fail('output-rows', 'RowNumber / n_failures of the rows written %r, positions and counts of the records %r'
                     % (w['rows'][:6], want_rows[:6]), 'output-rows:row-numbers')
        cons = c02.tdda_dict(case['constraints'])
        o = case['opts']
        d = tempfile.mkdtemp(prefix='c06_')
        try:
            df = self._indexed(cx.to_df(case['frame']), case)
            orig = df.copy(deep=True)
            outpath = None
            if case['out']:
                outpath = os.path.join(d, 'detect.' + case['out'])
                if case['stale']:
                    with open(outpath, 'w') as f:
                        f.write('stale,content\n1,2\n')
            try:
                with quiet(), contextlib.redirect_stdout(io.StringIO()):
                    # strict type checking in a third of the cases (detection is verification plus the records)
                    tkw = {'type_checking': 'strict'} if case.get('strict', case['frame']['nrows'] % 3 == 0) else {}
                    ver = verify_df(self._indexed(cx.to_df(case['frame']), case), cons, epsilon=epsf, repair=False, **tkw)
                    v = detect_df(df, cons, epsilon=epsf, repair=False, outpath=outpath, **tkw,
                                  per_constraint=o['per_constraint'], write_all=o['write_all'],
                                  output_fields=o['output_fields'], index=o['index'], in_place=o['in_place'],
                                  boolean_ints=o['boolean_ints'])
            except Exception as e:
                od = any(c['fam'] == 'object-date' for c in case['frame']['cols'])
                fail('raises', '%s: %s' % (type(e).__name__, str(e)[:200]),
                     'raises:' + type(e).__name__ + (':object-date' if od and isinstance(e, TypeError) else ''))
                return F
            # verdicts identical to plain verification
            for name, fr in ver.fields.items():
                for kind, val in fr.items():
                    dv = dict(v.fields[name]).get(kind) if name in v.fields else None
                    if dv is None or bool(dv) != bool(val):
                        fail('verdict-differs-from-verify', '%s.%s detect %s verify %s' % (name, kind, dv, val))
            if (v.passes, v.failures) != (ver.passes, ver.failures):
                fail('verdict-differs-from-verify', 'totals differ')
            # output file exists afterwards only if some constraint failed
            if outpath:
                exists = os.path.exists(outpath)
                if exists != (v.failures > 0):
                    fail('outfile', 'output file exists=%s with %d failing constraints (stale=%s)' % (exists, v.failures, case['stale']),
                         'outfile:%s' % ('stale-survives' if exists else 'missing'))
                if exists and open(outpath, 'rb').read().startswith(b'stale,content'):
                    fail('outfile', 'stale content survived', 'outfile:stale-content')
            # input unchanged unless in_place
            if o['in_place']:
                # in place: the input gains the detection columns, nothing else (no copies of its own fields)
                gained = [c_ for c_ in df.columns if c_ not in list(orig.columns)]
                odd = [c_ for c_ in gained if not (c_ == 'n_failures' or str(c_).endswith('_ok'))]
                if odd:
                    fail('input-changed', 'in place: the input frame gained %r besides the detection columns' % odd, 'input-changed:in-place-extra-columns')
            if not o['in_place']:
                same = list(df.columns) == list(orig.columns) and all(str(a) == str(b) for a, b in zip(df.dtypes, orig.dtypes)) \
                    and df.equals(orig) and df.index.equals(orig.index) and list(df.index.names) == list(orig.index.names)
                if not same:
                    fail('input-changed', 'input frame changed: columns %r -> %r' % (list(orig.columns), list(df.columns)))
            if v.failures == 0:
                if v.detected() is not None and len(v.detected()) > 0:
                    fail('records-without-failure', 'records reported although no constraint failed')
                return F
            # per-record flags (recomputed from a per-constraint, all-records detection on a fresh copy)
            with quiet(), contextlib.redirect_stdout(io.StringIO()):
                v2 = detect_df(cx.to_df(case['frame']), cons, epsilon=epsf, repair=False, **tkw,
                               per_constraint=True, output_fields=[], write_all=True)
            det = v2.detected()
            if det is None:
                fail('no-detection', 'constraints failed (%d) but detection produced no records object' % v2.failures)
                return F
            n = case['frame']['nrows']
            want_nf = [0] * n
            for col in case['frame']['cols']:
                name = col['name']
                for k in case['constraints'][name]:
                    if v2.fields[name][k['kind']]:
                        continue
                    cname = '%s_%s_ok' % (name, CONSTRAINT_SUFFIX_MAP[k['kind']])
                    if cname not in det:
                        fail('no-flag-column', 'failing constraint %s.%s has no flag column' % (name, k['kind']),
                             'no-flag-column:' + k['kind'])
                        continue
                    got = [None if pd.isnull(x) else bool(x) for x in det[cname]]
                    want = []
                    for cell in col['cells']:
                        try:
                            want.append(cell_ok(col, k, cell, eps, col['cells']))
                        except TypeError:
                            want.append('?')
                    for i, (g, w) in enumerate(zip(got, want)):
                        if w is False:
                            want_nf[i] += 1
                    if any(w != '?' and g != w for g, w in zip(got, want)):
                        fail('flags', '%s.%s=%r on %r: flags %r, per-record meaning %r'
                             % (name, k['kind'], k['value'], col['cells'][:8], got[:8], want[:8]),
                             'flags:%s:%s' % (k['kind'], 'float32-bound-rounded' if col['fam'] == 'float32' and
                                              k['kind'] in ('min', 'max') else cx.col_ftype(col)))
            got_nf = [int(x) for x in det['n_failures']]
            for col_ in det.columns:
                pass
            false_counts = [sum(1 for cn in det.columns if cn.endswith('_ok') and det[cn].iloc[i] is not None
                                and not pd.isnull(det[cn].iloc[i]) and not bool(det[cn].iloc[i])) for i in range(n)]
            if got_nf != false_counts:
                fail('n_failures', 'n_failures %r, false flags per record %r' % (got_nf, false_counts))
            nfail = sum(1 for x in got_nf if x > 0)
            dd = v2.detection
            if dd.n_failing_records != nfail or dd.n_passing_records + dd.n_failing_records != n:
                fail('record-counts', 'passing %s failing %s, rows %d, records with failures %d'
                     % (dd.n_passing_records, dd.n_failing_records, n, nfail))
            # the requested run: rows returned = failing records unless write_all
            det1 = v.detected()
            want_nf_rows = got_nf if o['write_all'] else [x for x in got_nf if x > 0]
            first = case['frame']['cols'][0]
            want_first = [str(c) for c, x in zip(self._indexed(cx.to_df(case['frame']), case)[first['name']], got_nf)
                          if o['write_all'] or x > 0]

            def which_rows(frame, where):
                """the rows written are the failing records themselves (all records with write_all), in order"""
                if 'n_failures' in frame.columns and [int(x) for x in frame['n_failures']] != want_nf_rows:
                    fail('output-rows', '%s: n_failures of the rows written %r, of the failing records %r'
                         % (where, [int(x) for x in frame['n_failures']][:10], want_nf_rows[:10]), 'output-rows:wrong-records:' + where)
                elif first['name'] in frame.columns and where == 'returned' and [str(c) for c in frame[first['name']]] != want_first:
                    fail('output-rows', '%s: column %r of the rows written %r, of the failing records %r'
                         % (where, first['name'], [str(c) for c in frame[first['name']]][:6], want_first[:6]),
                         'output-rows:wrong-records:' + where)
            if det1 is not None:
                want_rows = n if o['write_all'] else v.detection.n_failing_records
                if len(det1) != want_rows:
                    fail('output-rows', 'returned %d rows, expected %d' % (len(det1), want_rows))
                else:
                    which_rows(det1, 'returned')
            if outpath and os.path.exists(outpath):
                try:
                    fdf = pd.read_parquet(outpath) if case['out'] == 'parquet' else pd.read_csv(outpath)
                    want_rows = n if o['write_all'] else v.detection.n_failing_records
                    if len(fdf) != want_rows:
                        fail('output-rows', 'file holds %d rows, expected %d' % (len(fdf), want_rows), 'output-rows:file')
                    else:
                        which_rows(fdf, 'file')
                except Exception as e:
                    fail('outfile-unreadable', repr(e)[:200], 'outfile-unreadable:' + type(e).__name__)
        finally:
            shutil.rmtree(d, ignore_errors=True)
        return F


PROP = C06
